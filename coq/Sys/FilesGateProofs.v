(* Lemmas about the request gate and the disposition rule of Sys/Files.v. *)
From Coq Require Import NArith ZArith List Bool Lia.
From Tinode Require Import Pure.Url Sys.Files.
Import ListNotations.

Lemma effect_eq_none : forall e : effect, e = ENone \/ e <> ENone.
Proof. intros e. destruct e; [left; reflexivity|right; discriminate..]. Qed.

(* ---- where a positive answer of the key / credential checks comes from ---- *)
Lemma key_check_source : forall keys,
  key_check keys = true -> first_some keys = Some KValid.
Proof.
  intros keys H. unfold key_check in H.
  destruct (first_some keys) as [[|]|]; [reflexivity|discriminate|discriminate].
Qed.

Lemma first_some_in : forall (A : Type) (l : list (option A)) (a : A),
  first_some l = Some a -> In (Some a) l.
Proof.
  induction l as [|[x|] r IH]; intros a H; cbn [first_some] in H.
  - discriminate.
  - inversion H; subst. left; reflexivity.
  - right. apply IH. exact H.
Qed.

Lemma auth_uid_source : forall creds sid u,
  auth_of creds sid = AuthUid u -> u <> 0%N ->
  first_some creds = Some (CGood u) \/ (first_some creds = None /\ sid = Some u).
Proof.
  intros creds sid u H Hu. unfold auth_of in H.
  destruct (first_some creds) as [[v|c| |]|].
  - inversion H; subst. left; reflexivity.
  - discriminate.
  - discriminate.
  - inversion H; subst. congruence.
  - destruct sid as [v|]; inversion H; subst; [right; split; reflexivity|congruence].
Qed.

(* ---- download gate ---- *)
Lemma serve_gate_work : forall r,
  effect_of (serve_gate r) <> ENone ->
  s_meth r = MGet /\ key_check (s_keys r) = true /\
  (exists u, auth_of (s_creds r) (s_sid r) = AuthUid u /\ u <> 0%N) /\
  s_handler r = true /\ s_hdr r = HdrStatus 0 /\ s_found r = true /\
  serve_gate r = Reply 200 EServed.
Proof.
  intros r H. unfold serve_gate in *.
  assert (Hpre : forall h x, effect_of (preflight h x) = ENone).
  { intros h x. unfold preflight. destruct h; cbn; [destruct x|]; reflexivity. }
  destruct (s_meth r) eqn:Em; cbn [effect_of] in H; try congruence;
    try (rewrite Hpre in H; congruence).
  - (* GET *)
    destruct (key_check (s_keys r)) eqn:Ek; cbn [negb] in *; [|cbn in H; congruence].
    destruct (auth_of (s_creds r) (s_sid r)) as [c| |u] eqn:Ea; try (cbn in H; congruence).
    destruct (u =? 0)%N eqn:Eu; [cbn in H; congruence|].
    destruct (s_handler r) eqn:Eh; cbn [negb] in *; [|cbn in H; congruence].
    destruct (s_hdr r) as [c|c] eqn:Ehd; [cbn in H; congruence|].
    destruct (c =? 0)%Z eqn:Ec; cbn [negb] in *; [|cbn in H; congruence].
    destruct (s_found r) eqn:Ef; [|cbn in H; congruence].
    apply Z.eqb_eq in Ec. subst c. apply N.eqb_neq in Eu.
    repeat split; try reflexivity. exists u. split; [reflexivity|exact Eu].
  - (* HEAD *)
    destruct (key_check (s_keys r)); cbn [negb] in *; [|cbn in H; congruence].
    destruct (auth_of (s_creds r) (s_sid r)) as [c| |u]; try (cbn in H; congruence).
    destruct (u =? 0)%N; [cbn in H; congruence|].
    destruct (s_handler r); cbn [negb] in *; [|cbn in H; congruence].
    destruct (s_hdr r) as [c|c]; [cbn in H; congruence|].
    destruct (c =? 0)%Z; cbn [negb] in *; cbn in H; congruence.
Qed.

Lemma serve_methods : forall r,
  s_meth r <> MGet -> s_meth r <> MHead -> s_meth r <> MOptions ->
  serve_gate r = Reply 405 ENone.
Proof.
  intros r H1 H2 H3. unfold serve_gate. destruct (s_meth r); try reflexivity; congruence.
Qed.

Lemma preflight_no_effect : forall h x, effect_of (preflight h x) = ENone.
Proof. intros h x. unfold preflight. destruct h; cbn; [destruct x|]; reflexivity. Qed.

Lemma serve_refused_no_effect : forall r c e,
  serve_gate r = Reply c e -> c <> 200%Z -> e = ENone.
Proof.
  intros r c e H Hc.
  destruct (effect_eq_none e) as [He|He]; [exact He|]. exfalso.
  assert (Hw : effect_of (serve_gate r) <> ENone) by (rewrite H; cbn; exact He).
  destruct (serve_gate_work r Hw) as [_ [_ [_ [_ [_ [_ Hg]]]]]].
  rewrite Hg in H. inversion H; try congruence.
Qed.

(* ---- upload gate ---- *)
(* stated for every reaction [ff] to a failed FinishUpload: serves the handler as it is and as it was *)
Lemma upload_body_with_work : forall ff r,
  effect_of (upload_body_with ff r) <> ENone ->
  exists total flen, u_body r = BForm total true flen /\ over_limit (u_limit r) (u_body r) = false /\
    (0 < flen)%Z /\
    ((u_fault r = FNone /\ upload_body_with ff r = Reply 200 EStored) \/
     (u_fault r = FFinish /\ upload_body_with ff r = ff)).
Proof.
  intros ff r H. unfold upload_body_with in *.
  destruct (u_body r) as [|total hf flen] eqn:Eb; [cbn in H; congruence|].
  destruct (over_limit (u_limit r) (BForm total hf flen)) eqn:Eo; [cbn in H; congruence|].
  destruct hf; cbn [negb] in *; [|cbn in H; congruence].
  destruct (flen <=? 0)%Z eqn:Ef; [cbn in H; congruence|].
  apply Z.leb_gt in Ef.
  exists total, flen. split; [reflexivity|]. split; [reflexivity|]. split; [exact Ef|].
  destruct (u_fault r); cbn in H; try congruence; [left|right]; split; reflexivity.
Qed.

Lemma upload_body_work : forall r,
  effect_of (upload_body r) <> ENone ->
  exists total flen, u_body r = BForm total true flen /\ over_limit (u_limit r) (u_body r) = false /\
    (0 < flen)%Z /\
    ((u_fault r = FNone /\ upload_body r = Reply 200 EStored) \/
     (u_fault r = FFinish /\ upload_body r = Reply 500 EResidueNoBytes)).
Proof. intros r. exact (upload_body_with_work (Reply 500 EResidueNoBytes) r). Qed.

Lemma upload_gate_with_work : forall body r,
  effect_of (upload_gate_with body r) <> ENone ->
  (u_meth r = MPost \/ u_meth r = MPut) /\ key_check (u_keys r) = true /\
  (exists u, auth_of (u_creds r) (u_sid r) = AuthUid u /\ (u <> 0%N \/ u_newacc r = true)) /\
  u_handler r = true /\ u_hdr r = HdrStatus 0 /\ upload_gate_with body r = body r /\
  effect_of (body r) <> ENone.
Proof.
  intros body r H. unfold upload_gate_with in *.
  destruct (u_meth r) eqn:Em; cbn [effect_of] in H; try congruence;
    try (rewrite preflight_no_effect in H; congruence).
  - (* HEAD *)
    destruct (key_check (u_keys r)); cbn [negb] in *; [|cbn in H; congruence].
    destruct (auth_of (u_creds r) (u_sid r)) as [c| |u]; try (cbn in H; congruence).
    destruct ((u =? 0)%N && negb (u_newacc r)); [cbn in H; congruence|].
    destruct (u_handler r); cbn [negb] in *; [|cbn in H; congruence].
    destruct (u_hdr r) as [c|c]; [cbn in H; congruence|].
    destruct (c =? 0)%Z; cbn [negb] in *; cbn in H; congruence.
  - (* POST *)
    destruct (key_check (u_keys r)) eqn:Ek; cbn [negb] in *; [|cbn in H; congruence].
    destruct (auth_of (u_creds r) (u_sid r)) as [c| |u] eqn:Ea; try (cbn in H; congruence).
    destruct ((u =? 0)%N && negb (u_newacc r)) eqn:Eu; [cbn in H; congruence|].
    destruct (u_handler r) eqn:Eh; cbn [negb] in *; [|cbn in H; congruence].
    destruct (u_hdr r) as [c|c] eqn:Ehd; [cbn in H; congruence|].
    destruct (c =? 0)%Z eqn:Ec; cbn [negb] in *; [|cbn in H; congruence].
    apply Z.eqb_eq in Ec. subst c.
    repeat split; try reflexivity; try exact H; [left; reflexivity|].
    exists u. split; [reflexivity|].
    apply andb_false_iff in Eu. destruct Eu as [Eu|Eu].
    + left. apply N.eqb_neq. exact Eu.
    + right. destruct (u_newacc r); [reflexivity|discriminate].
  - (* PUT *)
    destruct (key_check (u_keys r)) eqn:Ek; cbn [negb] in *; [|cbn in H; congruence].
    destruct (auth_of (u_creds r) (u_sid r)) as [c| |u] eqn:Ea; try (cbn in H; congruence).
    destruct ((u =? 0)%N && negb (u_newacc r)) eqn:Eu; [cbn in H; congruence|].
    destruct (u_handler r) eqn:Eh; cbn [negb] in *; [|cbn in H; congruence].
    destruct (u_hdr r) as [c|c] eqn:Ehd; [cbn in H; congruence|].
    destruct (c =? 0)%Z eqn:Ec; cbn [negb] in *; [|cbn in H; congruence].
    apply Z.eqb_eq in Ec. subst c.
    repeat split; try reflexivity; try exact H; [right; reflexivity|].
    exists u. split; [reflexivity|].
    apply andb_false_iff in Eu. destruct Eu as [Eu|Eu].
    + left. apply N.eqb_neq. exact Eu.
    + right. destruct (u_newacc r); [reflexivity|discriminate].
Qed.

Lemma upload_gate_work : forall r,
  effect_of (upload_gate r) <> ENone ->
  (u_meth r = MPost \/ u_meth r = MPut) /\ key_check (u_keys r) = true /\
  (exists u, auth_of (u_creds r) (u_sid r) = AuthUid u /\ (u <> 0%N \/ u_newacc r = true)) /\
  u_handler r = true /\ u_hdr r = HdrStatus 0 /\ upload_gate r = upload_body r /\
  effect_of (upload_body r) <> ENone.
Proof. intros r. exact (upload_gate_with_work upload_body r). Qed.

Lemma upload_methods : forall r,
  u_meth r <> MPost -> u_meth r <> MPut -> u_meth r <> MHead -> u_meth r <> MOptions ->
  upload_gate r = Reply 405 ENone.
Proof.
  intros r H1 H2 H3 H4. unfold upload_gate, upload_gate_with. destruct (u_meth r); try reflexivity; congruence.
Qed.

(* a reply other than 200 has no effect - except the reply to an upload whose FinishUpload
   failed in the store: 500, and the record stays in status 'started' without bytes *)
Lemma upload_refused_effect : forall r c e,
  upload_gate r = Reply c e -> c <> 200%Z ->
  e = ENone \/ (e = EResidueNoBytes /\ c = 500%Z /\ u_fault r = FFinish).
Proof.
  intros r c e H Hc.
  destruct (effect_eq_none e) as [He|He]; [left; exact He|]. right.
  assert (Hw : effect_of (upload_gate r) <> ENone) by (rewrite H; cbn; exact He).
  destruct (upload_gate_work r Hw) as [_ [_ [_ [_ [_ [Hg Hb]]]]]].
  destruct (upload_body_work r Hb) as [t [fl [_ [_ [_ [[_ Hs]|[Hf Hs]]]]]]];
    rewrite Hg, Hs in H; inversion H; subst; [congruence|].
  repeat split; try reflexivity. exact Hf.
Qed.

Lemma upload_refused_no_effect : forall r c e,
  upload_gate r = Reply c e -> c <> 200%Z -> u_fault r <> FFinish -> e = ENone.
Proof.
  intros r c e H Hc Hf. destruct (upload_refused_effect r c e H Hc) as [He|[_ [_ Hx]]]; [exact He|congruence].
Qed.

(* the handler answers every request it gets to work on: the only panic left is the missing
   media handler (a configuration error), and it has no effect *)
Lemma upload_answered : forall r e,
  upload_gate r = Crash e -> u_handler r = false /\ e = ENone.
Proof.
  intros r e H. unfold upload_gate, upload_gate_with in H.
  assert (Hb : forall x, upload_body r <> Crash x).
  { intros x. unfold upload_body, upload_body_with.
    destruct (u_body r) as [|t hf fl]; [discriminate|].
    destruct (over_limit _ _); [discriminate|]. destruct (negb hf); [discriminate|].
    destruct (fl <=? 0)%Z; [discriminate|]. destruct (u_fault r); discriminate. }
  assert (Hp : forall h x, preflight h x = Crash e -> h = false /\ e = ENone).
  { intros h x Hx. unfold preflight in Hx. destruct h; cbn [negb] in Hx; [destruct x; discriminate|].
    inversion Hx. split; reflexivity. }
  destruct (u_meth r); try discriminate; try (exact (Hp _ _ H));
    (destruct (key_check (u_keys r)); cbn [negb] in H; [|discriminate];
     destruct (auth_of (u_creds r) (u_sid r)) as [c| |u]; try discriminate;
     destruct ((u =? 0)%N && negb (u_newacc r)); [discriminate|];
     destruct (u_handler r); cbn [negb] in H; [|inversion H; split; reflexivity];
     destruct (u_hdr r) as [c|c]; [discriminate|];
     destruct (c =? 0)%Z; cbn [negb] in H; [|discriminate]);
    try discriminate; exfalso; exact (Hb _ H).
Qed.

Lemma upload_refused_state : forall s r fid now mime,
  effect_of (upload_gate r) = ENone -> fst (apply_upload s r fid now mime) = s.
Proof.
  intros s r fid now mime H. unfold apply_upload. cbn [fst]. rewrite H. reflexivity.
Qed.

(* the handler as it was: the same request is left unanswered, record and bytes stay *)
Lemma upload_unrepaired_crash : forall r,
  effect_of (upload_gate_unrepaired r) <> ENone -> u_fault r = FFinish ->
  upload_gate_unrepaired r = Crash EResidue.
Proof.
  intros r H Hf.
  destruct (upload_gate_with_work upload_body_unrepaired r H) as [_ [_ [_ [_ [_ [Hg Hb]]]]]].
  destruct (upload_body_with_work (Crash EResidue) r Hb) as [t [fl [_ [_ [_ [[Hn _]|[_ Hs]]]]]]]; [congruence|].
  unfold upload_gate_unrepaired. rewrite Hg. exact Hs.
Qed.

Lemma upload_size_limit : forall r total hf flen,
  u_body r = BForm total hf flen -> (0 < u_limit r)%Z -> (u_limit r < total)%Z ->
  effect_of (upload_gate r) = ENone.
Proof.
  intros r total hf flen Hb Hl Ht.
  destruct (effect_eq_none (effect_of (upload_gate r))) as [He|He]; [exact He|].
  destruct (upload_gate_work r He) as [_ [_ [_ [_ [_ [_ Hbw]]]]]].
  destruct (upload_body_work r Hbw) as [t [fl [Hb' [Ho _]]]].
  rewrite Hb in Ho. cbn [over_limit] in Ho.
  apply andb_false_iff in Ho. destruct Ho as [Ho|Ho].
  - apply Z.ltb_ge in Ho. lia.
  - apply Z.ltb_ge in Ho. lia.
Qed.

Lemma upload_size_limit_413 : forall r total hf flen,
  u_body r = BForm total hf flen -> (0 < u_limit r)%Z -> (u_limit r < total)%Z ->
  upload_body r = Reply 413 ENone.
Proof.
  intros r total hf flen Hb Hl Ht. unfold upload_body, upload_body_with. rewrite Hb.
  cbn [over_limit].
  assert (H1 : (0 <? u_limit r)%Z = true) by (apply Z.ltb_lt; exact Hl).
  assert (H2 : (u_limit r <? total)%Z = true) by (apply Z.ltb_lt; exact Ht).
  rewrite H1, H2. reflexivity.
Qed.

(* ---- disposition ---- *)
Lemma active_attached : forall asatt mime,
  active mime = true -> force_attachment asatt mime = true.
Proof.
  intros asatt mime H. unfold active in H. unfold force_attachment.
  repeat (apply orb_true_iff in H; destruct H as [H|H]); rewrite H;
    repeat rewrite orb_true_r; reflexivity.
Qed.

Lemma not_forced_means_passive : forall mime,
  force_attachment false mime = false ->
  contains s_html mime = false /\ contains s_xml mime = false /\
  has_prefix s_text mime = false /\ has_prefix s_application mime = false.
Proof.
  intros mime H. unfold force_attachment in H.
  repeat (apply orb_false_iff in H; destruct H as [H ?]).
  repeat split; assumption.
Qed.
