(* C13: reachability of the MODELLED panic sites and reply totality of the session / hub routing
   of every client message kind (definitions only).

   Modelled code (tinode/chat server): Session.dispatchRaw, dispatch, hello(outline), acc, login
   (outline), subscribe, leave, publish, get, set, del, note, expandTopicName (session.go);
   types.GetTopicCat; Hub.run join/meta/unreg branches, Hub.topicUnreg, replyOfflineTopicGetDesc /
   GetSub / SetSub (hub.go); topicInit's name switch and the attachment link of a new topic
   (init_topic.go); the in-topic sites reached with client-chosen values: Messages.Save and
   Files.LinkAttachments on a nil media handler (store/store.go), Topic.original on a P2P topic for
   a non-member (topic.go); pbCliDeserialize of a {set} (pbconverter.go); getDefaultAccess
   (utils.go) with Topic.accessFor and the handlers which reach it with a client request:
   registerSession -> handleSubscription -> subscriptionReply -> thisUserSub, handleMetaSet ->
   replySetSub -> thisUserSub / anotherUserSub (topic.go), initTopicFnd / initTopicNewGrp
   (init_topic.go), replyCreateUser (user.go).

   Strings are [list N] (bytes).  A Go panic reachable from input is the outcome [Panic site], never
   a totalised default.  Everything BELOW the modelled level (permission checks inside the topic,
   store lookups, authenticators) is represented by oracle fields of [state]: the theorems
   quantify over all their values.  The record [repairs] selects, site by site, the code as it is
   ([false]) or as it is after the one-to-three-line repair ([true]) (findings/C13_*.diff; all of
   them are `fix:` commits of /repo by now, so [all_repairs] is the code as it is and [no_repairs]
   the code before the repairs). *)
From Coq Require Import List NArith ZArith Bool.
Import ListNotations.
Open Scope N_scope.

Definition str := list N.

Fixpoint eqs (a b : str) : bool :=
  match a, b with
  | [], [] => true
  | x :: a', y :: b' => (x =? y) && eqs a' b'
  | _, _ => false
  end.

Fixpoint has_prefix (p s : str) : bool :=
  match p, s with
  | [], _ => true
  | x :: p', y :: s' => (x =? y) && has_prefix p' s'
  | _ :: _, [] => false
  end.

Fixpoint mem_str (x : str) (l : list str) : bool :=
  match l with [] => false | y :: l' => eqs x y || mem_str x l' end.

Fixpoint mem_n (x : N) (l : list N) : bool :=
  match l with [] => false | y :: l' => (x =? y) || mem_n x l' end.

Definition is_empty (s : str) : bool := match s with [] => true | _ => false end.

(* byte strings used by the code *)
Definition s_usr : str := [117;115;114].
Definition s_p2p : str := [112;50;112].
Definition s_grp : str := [103;114;112].
Definition s_chn : str := [99;104;110].
Definition s_fnd : str := [102;110;100].
Definition s_sys : str := [115;121;115].
Definition s_new : str := [110;101;119].
Definition s_nch : str := [110;99;104].
Definition s_me : str := [109;101].
Definition s_call : str := [99;97;108;108].
Definition s_data : str := [100;97;116;97].
Definition s_kp : str := [107;112].
Definition s_kpa : str := [107;112;97].
Definition s_kpv : str := [107;112;118].
Definition s_read : str := [114;101;97;100].
Definition s_recv : str := [114;101;99;118].
Definition s_ringing : str := [114;105;110;103;105;110;103].
Definition s_hangup : str := [104;97;110;103;45;117;112].
Definition s_accept : str := [97;99;99;101;112;116].
Definition s_topic : str := [116;111;112;105;99].
Definition s_msg : str := [109;115;103].
Definition s_sub : str := [115;117;98].
Definition s_user : str := [117;115;101;114].
Definition s_cred : str := [99;114;101;100].
Definition s_reset : str := [114;101;115;101;116].

(* ---- types.GetTopicCat (store/types/types.go) ---- *)
Inductive cat := CatMe | CatFnd | CatP2P | CatGrp | CatSys.
Inductive catres := CatOk (c : cat) | CatPanic (site : N).

Definition site_cat_slice : N := 1.      (* name[:3] on a name shorter than 3 bytes *)
Definition site_cat_default : N := 2.    (* default: panic("invalid topic type ...") *)
Definition site_acc_nil_auth : N := 3.   (* Session.acc: method call on a nil authenticator *)
Definition site_media_save : N := 4.     (* messagesMapper.Save: mediaHandler.GetIdFromUrl on nil *)
Definition site_media_link : N := 5.     (* fileMapper.LinkAttachments: same *)
Definition site_pb_setquery : N := 6.    (* pbCliDeserialize: *pbSetQueryDeserialize(sq) with nil result *)
Definition site_p2p_original : N := 7.   (* Topic.original: panic("Invalid P2P topic") *)
Definition site_defacs : N := 8.         (* getDefaultAccess: panic("Unknown topic category") *)
(* site 9 = boundedWaitGroup.Done() before Add() (sessionstore.go:52): modelled in Sys/Inflight.v (an interleaving model of
   every Add / Done site with its own flag [init_test] for Topic.unregisterSession), theorems c13_inflight_* in Props/PropC13.v *)

Definition get_topic_cat (name : str) : catres :=
  match name with
  | a :: b :: c :: _ =>
    let p := [a; b; c] in
    if eqs p s_usr then CatOk CatMe
    else if eqs p s_p2p then CatOk CatP2P
    else if eqs p s_grp || eqs p s_chn then CatOk CatGrp
    else if eqs p s_fnd then CatOk CatFnd
    else if eqs p s_sys then CatOk CatSys
    else CatPanic site_cat_default
  | _ => CatPanic site_cat_slice
  end.

(* the helper added by the repair of Hub.topicUnreg (findings/C13_del_topic_unreg_topiccat.diff) *)
Definition topic_name_valid (name : str) : bool :=
  match name with
  | a :: b :: c :: _ =>
    let p := [a; b; c] in
    eqs p s_usr || eqs p s_p2p || eqs p s_grp || eqs p s_chn || eqs p s_fnd || eqs p s_sys
  | _ => false
  end.

(* ---- messages: the decoded view of a client frame ---- *)
Inductive kind := KHi | KAcc | KLogin | KSub | KLeave | KPub | KGet | KSet | KDel | KNote.

Record msg := {
  m_kind : kind;
  m_id : str;
  m_topic : str;
  m_topic_uid : N;       (* types.ParseUserId(topic): 0 = not a user id *)
  m_what : str;          (* del.what / note.what *)
  m_get_desc : bool; m_get_sub : bool; m_get_data : bool; m_get_rest : bool;  (* bits of parseMsgClientMeta(get.what) *)
  m_set_desc : bool; m_set_private : bool; m_set_sub : bool; m_set_mode : bool; m_set_tags : bool; m_set_cred : bool;
      (* of {set}, and of the "set" section of a {sub}; m_set_mode: sub.mode is not empty *)
  m_set_joiner : bool;   (* sub.mode parses to a mode with the J bit *)
  m_set_user : str;      (* sub.user, empty = absent *)
  m_set_user_uid : N;    (* types.ParseUserId(sub.user) *)
  m_seq : Z;
  m_event : str;
  m_payload : bool;
  m_unsub : bool;
  m_user : str;          (* acc.user *)
  m_scheme : str;        (* login.scheme *)
  m_tmpscheme : str;     (* acc.tmpscheme *)
  m_hi_ver : N;          (* parseVersion(hi.ver): 0 = unparsable *)
  m_hi_ver_empty : bool;
  m_obo : str;           (* extra.obo, empty = absent *)
  m_obo_uid : N;         (* types.ParseUserId(extra.obo) *)
  m_attachments : bool   (* extra.attachments is non-empty *)
}.

(* what arrives on the wire *)
Inductive frame :=
  | Undecodable                      (* json.Unmarshal fails *)
  | ProbeOne                         (* the single byte '1' *)
  | NoKind (obo : str) (obo_uid : N) (* a JSON object with none of the ten kinds *)
  | Decoded (m : msg)
  | PbSet (m : msg) (query_present query_empty : bool).
      (* gRPC {set}: SetQuery present / pbSetQueryDeserialize returns nil for it *)

(* ---- configuration: optional subsystems ---- *)
Record cfg := {
  media_configured : bool;
  calls_configured : bool;
  validators : bool;
  push_configured : bool;
  auth_schemes : list str      (* logical names with a registered authenticator *)
}.

(* ---- state: the session, what the hub and the store hold, and oracles ---- *)
(* perUserData of one user in a loaded topic, as far as the modelled handlers read it *)
Record pud := {
  pu_deleted : bool;       (* deleted *)
  pu_want_joiner : bool;   (* modeWant.IsJoiner() *)
  pu_sharer : bool         (* (modeGiven & modeWant).IsSharer() *)
}.

Record topic_info := {
  t_name : str; t_inactive : bool; t_owner : N; t_p2p : bool; t_subcount : N; t_members : list N;
  t_cat : cat;                    (* t.cat, assigned by initTopic* *)
  t_peruser : list (N * pud)      (* t.perUser *)
}.

Fixpoint find_pud (u : N) (l : list (N * pud)) : option pud :=
  match l with
  | [] => None
  | (v, p) :: l' => if u =? v then Some p else find_pud u l'
  end.

Record state := {
  s_terminating : bool;
  s_ver : N;               (* 0 = no {hi} yet *)
  s_uid : N;               (* 0 = not logged in *)
  s_root : bool;
  s_subs : list str;       (* topics the session is attached to (expanded names) *)
  w_partitioned : bool;
  w_loaded : list topic_info;
  w_rows : list (str * N); (* subscription rows in the store: (topic, user) *)
  o_code : N;              (* reply code chosen below the modelled level *)
  o_reject : bool;         (* a check below the modelled level refuses the request *)
  o_store_err : bool;      (* a store call fails *)
  o_queue_full : bool;     (* the destination queue is full *)
  o_fresh : N              (* the next generated topic id *)
}.

Fixpoint find_topic (name : str) (l : list topic_info) : option topic_info :=
  match l with
  | [] => None
  | t :: l' => if eqs name (t_name t) then Some t else find_topic name l'
  end.

Fixpoint has_row (name : str) (u : N) (l : list (str * N)) : bool :=
  match l with
  | [] => false
  | (n, v) :: l' => (eqs name n && (u =? v)) || has_row name u l'
  end.

(* names in the store and in the hub were produced by the server: they are well-formed *)
Definition state_wf (st : state) : bool :=
  forallb (fun r => topic_name_valid (fst r)) (w_rows st) &&
  forallb (fun t => topic_name_valid (t_name t)) (w_loaded st) &&
  forallb topic_name_valid (s_subs st).

(* ---- outcomes ---- *)
Record reply := { r_code : N; r_id : str }.
Inductive outcome := Replies (l : list reply) | Silent | Panic (site : N).

Definition rep (code : N) (id : str) : outcome := Replies [{| r_code := code; r_id := id |}].

Definition is_panic (o : outcome) : bool := match o with Panic _ => true | _ => false end.

Record repairs := {
  fix_acc : bool; fix_note : bool; fix_unreg : bool; fix_pb : bool; fix_media : bool; fix_original : bool;
  fix_defacs : bool       (* /repo f52b053: getDefaultAccess has a case for the sys topic *)
}.
Definition no_repairs : repairs := {| fix_acc := false; fix_note := false; fix_unreg := false; fix_pb := false; fix_media := false; fix_original := false; fix_defacs := false |}.
Definition all_repairs : repairs := {| fix_acc := true; fix_note := true; fix_unreg := true; fix_pb := true; fix_media := true; fix_original := true; fix_defacs := true |}.

(* ---- Session.expandTopicName ---- *)
Definition user_name (u : N) : str := s_usr ++ [u].
Definition fnd_name (u : N) : str := s_fnd ++ [u].
Definition p2p_name (a b : N) : str := s_p2p ++ (if a <? b then [a; b] else [b; a]).
Definition chn_to_grp (n : str) : str := if has_prefix s_chn n then s_grp ++ skipn 3 n else [].
Definition is_channel (n : str) : bool := has_prefix s_chn n.

Inductive expand_res := ExpErr (code : N) | ExpOk (name : str).

Definition expand (asuser : N) (m : msg) : expand_res :=
  let t := m_topic m in
  if is_empty t then ExpErr 400
  else if eqs t s_me then ExpOk (user_name asuser)
  else if eqs t s_fnd then ExpOk (fnd_name asuser)
  else if has_prefix s_usr t then
    if m_topic_uid m =? 0 then ExpErr 400
    else if m_topic_uid m =? asuser then ExpErr 403
    else ExpOk (p2p_name asuser (m_topic_uid m))
  else if negb (is_empty (chn_to_grp t)) then ExpOk (chn_to_grp t)
  else ExpOk t.

(* ---- getDefaultAccess (utils.go) and Topic.accessFor (topic.go) ---- *)
(* access modes are bit masks: J=1 R=2 W=4 P=8 A=16 S=32 D=64 O=128 *)
Definition mode_none : N := 0.
Definition mode_c_p2p : N := 31.         (* JRWPA *)
Definition mode_c_public : N := 47.      (* JRWPS *)
Definition mode_c_chn_writer : N := 46.  (* RWPS *)
Definition mode_c_self : N := 41.        (* JPS *)
Definition mode_c_sys : N := 79.         (* JRWPD *)

(* a switch over the five topic categories; [None] = the default branch panic("Unknown topic category") *)
Definition get_default_access (rp : repairs) (c : cat) (auth_user is_chan : bool) : option N :=
  if negb auth_user then Some mode_none
  else match c with
       | CatP2P => Some mode_c_p2p
       | CatFnd => Some mode_none
       | CatGrp => Some (if is_chan then mode_c_chn_writer else mode_c_public)
       | CatMe => Some mode_c_self
       | CatSys => if fix_defacs rp then Some mode_c_sys else None
       end.

(* accessFor(lvl) = selectAccessMode(lvl, t.accessAnon, t.accessAuth, getDefaultAccess(t.cat, true, false)):
   the last argument is evaluated whatever the level is *)
Definition access_for (rp : repairs) (c : cat) : option N := get_default_access rp c true false.

(* [k] after a call of accessFor *)
Definition after_access_for (rp : repairs) (c : cat) (k : outcome) : outcome :=
  match access_for rp c with None => Panic site_defacs | Some _ => k end.

(* t.accessAuth = getDefaultAccess(cat, true, isChan); t.accessAnon = getDefaultAccess(cat, false, isChan)
   (initTopicFnd, initTopicNewGrp): true = both calls return *)
Definition init_defaults (rp : repairs) (c : cat) (is_chan : bool) : bool :=
  match get_default_access rp c true is_chan, get_default_access rp c false is_chan with
  | Some _, Some _ => true
  | _, _ => false
  end.

(* replyCreateUser: user.Access.Auth / Anon = getDefaultAccess(P2P, ..) | getDefaultAccess(Grp, ..) *)
Definition new_user_defaults (rp : repairs) : bool := init_defaults rp CatP2P false && init_defaults rp CatGrp false.

(* thisUserSub, reached by {sub} (registerSession -> handleSubscription -> subscriptionReply) and by {set sub}
   without a user (replySetSub), as far as it decides whether accessFor is called.  The refusals before and
   between the modelled statements (unparsable mode, suspended topic, subscriber limit, the sys topic asking for
   the root level, owner / ownership rules, a banned user: all answered with one error reply) are the oracle
   [o_reject]; the final reply code is the oracle [o_code]. *)
Definition this_user_sub (rp : repairs) (st : state) (ti : topic_info) (asuser : N) (m : msg) : outcome :=
  let ok := rep (o_code st) (m_id m) in
  if o_reject st then ok
  else if o_store_err st then rep 500 (m_id m)
  else
    let fresh := match find_pud asuser (t_peruser ti) with Some p => pu_deleted p | None => true end in
    if fresh then
      (* New subscription (or a channel reader who is not cached) *)
      match t_cat ti with
      | CatP2P => ok
      | CatSys => ok
      | c =>
        if is_channel (m_topic m) then ok
        else
          (* "All other topic types": if userData.modeGiven == ModeUnset { .. = t.accessFor(asLvl) };
             if modeWant == ModeUnset { .. = t.accessFor(asLvl) }.  Whether the previous modeGiven is unset is decided
             below the modelled level: the call is modelled as always made. *)
          after_access_for rp c ok
      end
    else
      (* Process update to existing subscription *)
      if m_set_mode m then ok                              (* explicit modeWant: no default is asked for *)
      else match find_pud asuser (t_peruser ti) with
           | Some p =>
             (* modeWant == ModeUnset: if !oldWant.IsJoiner() { userData.modeWant = userData.modeGiven | t.accessFor(asLvl) } *)
             if negb (pu_want_joiner p) then after_access_for rp (t_cat ti) ok else ok
           | None => ok
           end.

(* anotherUserSub, reached by {set sub user=<somebody else>} *)
Definition another_user_sub (rp : repairs) (st : state) (ti : topic_info) (asuser target : N) (m : msg) : outcome :=
  let ok := rep (o_code st) (m_id m) in
  match find_pud asuser (t_peruser ti) with
  | None => rep 403 (m_id m)
  | Some host =>
    if negb (pu_sharer host) then rep 403 (m_id m)            (* approver has no permission *)
    else if is_channel (m_topic m) then rep 403 (m_id m)
    else if o_reject st then ok       (* suspended topic, unparsable mode, explicit mode from a non-admin, ownership transfer, limit *)
    else
      let fresh := match find_pud target (t_peruser ti) with Some p => pu_deleted p | None => true end in
      (* new invite without an explicit mode: modeGiven = t.accessFor(auth.LevelAuth) *)
      if fresh && negb (m_set_mode m) then after_access_for rp (t_cat ti) (if o_store_err st then rep 500 (m_id m) else ok)
      else if o_store_err st then rep 500 (m_id m) else ok
  end.

(* replySetSub *)
Definition reply_set_sub (rp : repairs) (st : state) (ti : topic_info) (asuser : N) (m : msg) : outcome :=
  if negb (is_empty (m_set_user m)) && (m_set_user_uid m =? 0) then rep 400 (m_id m)      (* Invalid user ID *)
  else
    let target := if m_set_user_uid m =? 0 then asuser else m_set_user_uid m in
    if target =? asuser then this_user_sub rp st ti asuser m
    else another_user_sub rp st ti asuser target m.

(* ---- in-topic sites ---- *)
(* Topic.original(asUid) is evaluated to build replies; on a P2P topic it panics for a non-member *)
Definition original_panics (rp : repairs) (ti : topic_info) (asuser : N) : bool :=
  t_p2p ti && negb (mem_n asuser (t_members ti)) && negb (fix_original rp).

(* {pub} handled by a loaded topic the session is attached to: handlePubBroadcast, saveAndBroadcastMessage *)
Definition topic_pub (rp : repairs) (c : cfg) (st : state) (ti : topic_info) (asuser : N) (m : msg) : outcome :=
  if t_p2p ti && negb (mem_n asuser (t_members ti)) then
    (* perUser[asUid] is the zero value: not a writer -> ErrPermissionDenied(id, t.original(asUid)) *)
    if fix_original rp then rep 403 (m_id m) else Panic site_p2p_original
  else if o_reject st then rep (o_code st) (m_id m)             (* inactive, read-only, call checks, no W *)
  else if m_attachments m && negb (media_configured c) && negb (fix_media rp) then Panic site_media_save
  else if o_store_err st then rep 500 (m_id m)
  else if is_empty (m_id m) then Silent                          (* accepted {pub} without id: no {ctrl} by design *)
  else rep 202 (m_id m).

(* {get} handled by a loaded topic: replyGetData names the topic with t.original(asUid) *)
Definition topic_get (rp : repairs) (st : state) (ti : topic_info) (asuser : N) (m : msg) : outcome :=
  if m_get_data m && original_panics rp ti asuser then Panic site_p2p_original
  else rep (o_code st) (m_id m).

(* {set} handled by a loaded topic (handleMetaSet): replySetDesc links attachments when the description
   changed; then replySetSub.  (Each section of the {set} is answered separately; the model keeps the first
   reply: the one of the desc section when there is one.) *)
Definition topic_set (rp : repairs) (c : cfg) (st : state) (ti : topic_info) (asuser : N) (m : msg) : outcome :=
  if m_set_desc m && negb (o_reject st) && m_attachments m && negb (media_configured c) && negb (fix_media rp)
  then Panic site_media_link
  else if m_set_sub m then
    match reply_set_sub rp st ti asuser m with
    | Panic s => Panic s
    | o => if m_set_desc m then rep (o_code st) (m_id m) else o
    end
  else rep (o_code st) (m_id m).

(* {sub} handled by a loaded topic: registerSession (inactive topic and a full queue are checked by the caller),
   handleSubscription, subscriptionReply (a user id in set.sub is refused: part of the oracle), thisUserSub *)
Definition topic_reg (rp : repairs) (st : state) (ti : topic_info) (asuser : N) (m : msg) : outcome :=
  this_user_sub rp st ti asuser m.

(* ---- hub: join of a topic that is not loaded -> topicInit ---- *)
Definition topic_init (rp : repairs) (c : cfg) (st : state) (m : msg) : outcome :=
  let o := m_topic m in
  if eqs o s_fnd && negb (init_defaults rp CatFnd false) then Panic site_defacs     (* initTopicFnd *)
  else if eqs o s_me || eqs o s_fnd || has_prefix s_usr o || has_prefix s_p2p o
     || has_prefix s_grp o || has_prefix s_chn o || eqs o s_sys then
    rep (o_code st) (m_id m)                       (* load or create; then the topic's reg handler replies *)
  else if has_prefix s_new o || has_prefix s_nch o then
    (* initTopicNewGrp: the defaults are computed first *)
    if negb (init_defaults rp CatGrp (has_prefix s_nch o)) then Panic site_defacs
    else if o_reject st then rep (o_code st) (m_id m)   (* creation refused / failed *)
    else if m_attachments m && negb (media_configured c) && negb (fix_media rp) then Panic site_media_link
    else rep (o_code st) (m_id m)
  else rep 404 (m_id m).                           (* default: types.ErrTopicNotFound *)

Definition hub_join (rp : repairs) (c : cfg) (st : state) (asuser : N) (name : str) (m : msg) : outcome :=
  match find_topic name (w_loaded st) with
  | Some ti => if t_inactive ti then rep 503 (m_id m) else if o_queue_full st then rep 503 (m_id m) else topic_reg rp st ti asuser m
  | None => topic_init rp c st m
  end.

(* ---- hub.meta: requests about a topic the session is not attached to ---- *)
Definition offline_get_desc (st : state) (name : str) (m : msg) : outcome :=
  if has_prefix s_grp name || eqs name s_sys then rep (o_code st) (m_id m)
  else if has_prefix s_usr name || has_prefix s_p2p name then rep (o_code st) (m_id m)
  else rep 400 (m_id m).                           (* uid.IsZero(): malformed p2p topic name *)

Definition row_name (m : msg) (name : str) : str := if is_channel (m_topic m) then m_topic m else name.

Definition offline_get_sub (st : state) (asuser : N) (name : str) (m : msg) : outcome :=
  if o_reject st then rep 403 (m_id m)             (* get.sub.user names somebody else *)
  else if o_store_err st then rep 500 (m_id m)
  else if negb (has_row (row_name m name) asuser (w_rows st)) then rep 404 (m_id m)
  else match get_topic_cat name with
       | CatPanic s => Panic s
       | CatOk _ => rep 200 (m_id m)                (* {meta sub} *)
       end.

Definition offline_set_sub (st : state) (asuser : N) (name : str) (m : msg) : outcome :=
  if negb (m_set_private m) && negb (m_set_mode m) then rep 304 (m_id m)
  else if o_reject st then rep 403 (m_id m)
  else if o_store_err st then rep 500 (m_id m)
  else if negb (has_row (row_name m name) asuser (w_rows st)) then rep 404 (m_id m)
  else if m_set_mode m then
    match get_topic_cat name with
    | CatPanic s => Panic s
    | CatOk _ => rep (o_code st) (m_id m)
    end
  else rep (o_code st) (m_id m).

(* ---- Hub.topicUnreg with reason StopDeleted ({del what=topic}) ---- *)
Definition topic_unreg (rp : repairs) (st : state) (asuser : N) (name : str) (m : msg) : outcome :=
  match find_topic name (w_loaded st) with
  | Some ti =>
    if (negb (asuser =? 0) && (t_owner ti =? asuser)) || (t_p2p ti && (t_subcount ti <? 2)) then
      if o_store_err st then rep 500 (m_id m) else rep 200 (m_id m)
    else rep (o_code st) (m_id m)                  (* forwarded to the topic: treated as {leave unsub} *)
  | None =>
    if fix_unreg rp && negb (topic_name_valid name) then rep 404 (m_id m)
    else
      let name' := row_name m name in
      if o_store_err st then rep 500 (m_id m)      (* store.Topics.GetSubs fails *)
      else match get_topic_cat name' with
           | CatPanic s => Panic s
           | CatOk _ => rep (o_code st) (m_id m)    (* every remaining branch queues exactly one reply *)
           end
  end.

(* ---- session handlers ---- *)
Definition attached (st : state) (name : str) : bool := mem_str name (s_subs st).

Definition h_hello (st : state) (m : msg) : outcome :=
  if s_ver st =? 0 then
    if m_hi_ver m =? 0 then rep 400 (m_id m)
    else if o_reject st then rep 505 (m_id m)      (* older than the minimum supported version *)
    else rep 201 (m_id m)
  else if m_hi_ver_empty m || (m_hi_ver m =? s_ver st) then
    if negb (s_uid st =? 0) && o_store_err st then rep 500 (m_id m) else rep (if o_reject st then 200 else 201) (m_id m)
  else rep 409 (m_id m).

Definition h_acc (rp : repairs) (c : cfg) (st : state) (m : msg) : outcome :=
  let new_acc := has_prefix s_new (m_user m) in
  let pre : option outcome :=
    if negb new_acc && negb (is_empty (m_tmpscheme m)) then
      if negb (s_uid st =? 0) then Some (rep 409 (m_id m))
      else if negb (mem_str (m_tmpscheme m) (auth_schemes c)) then
        (* ErrAuthUnknownScheme is queued; without the repair execution continues with authHdl == nil *)
        if fix_acc rp then Some (rep 401 (m_id m)) else Some (Panic site_acc_nil_auth)
      else if o_store_err st then Some (rep (o_code st) (m_id m))   (* Authenticate fails *)
      else None
    else None in
  match pre with
  | Some o => o
  | None =>
    if new_acc then
      (* replyCreateUser *)
      if o_reject st then rep (o_code st) (m_id m)
      else if negb (new_user_defaults rp) then Panic site_defacs
      else if m_attachments m && negb (media_configured c) && negb (fix_media rp) then Panic site_media_link
      else rep (o_code st) (m_id m)
    else rep (o_code st) (m_id m)                  (* replyUpdateUser *)
  end.

Definition h_login (c : cfg) (st : state) (m : msg) : outcome :=
  if eqs (m_scheme m) s_reset then rep (o_code st) (m_id m)
  else if negb (s_uid st =? 0) then rep 409 (m_id m)
  else if negb (mem_str (m_scheme m) (auth_schemes c)) then rep 401 (m_id m)
  else rep (o_code st) (m_id m).

Definition h_subscribe (rp : repairs) (c : cfg) (st : state) (asuser : N) (m : msg) : outcome :=
  let r := if has_prefix s_new (m_topic m) || has_prefix s_nch (m_topic m)
           then ExpOk (s_grp ++ [o_fresh st]) else expand asuser m in
  match r with
  | ExpErr code => rep code (m_id m)
  | ExpOk name =>
    if attached st name then rep 304 (m_id m)
    else if o_queue_full st then rep 503 (m_id m)
    else hub_join rp c st asuser name m
  end.

Definition h_leave (st : state) (asuser : N) (m : msg) : outcome :=
  match expand asuser m with
  | ExpErr code => rep code (m_id m)
  | ExpOk name =>
    if attached st name then
      if (eqs (m_topic m) s_me || eqs (m_topic m) s_fnd) && m_unsub m then rep 403 (m_id m)
      else rep (o_code st) (m_id m)
    else if negb (m_unsub m) then rep 304 (m_id m)
    else rep 409 (m_id m)
  end.

Definition h_publish (rp : repairs) (c : cfg) (st : state) (asuser : N) (m : msg) : outcome :=
  match expand asuser m with
  | ExpErr code => rep code (m_id m)
  | ExpOk name =>
    if attached st name then
      if o_queue_full st then rep 503 (m_id m)
      else match find_topic name (w_loaded st) with
           | Some ti => topic_pub rp c st ti asuser m
           | None => rep (o_code st) (m_id m)
           end
    else if eqs name s_sys then
      if o_queue_full st then rep 503 (m_id m)
      else match find_topic name (w_loaded st) with
           | Some ti => topic_pub rp c st ti asuser m
           | None => rep 202 (m_id m)                (* hub: unknown or offline topic is reported as accepted *)
           end
    else rep 409 (m_id m)
  end.

Definition h_get (rp : repairs) (st : state) (asuser : N) (m : msg) : outcome :=
  match expand asuser m with
  | ExpErr code => rep code (m_id m)
  | ExpOk name =>
    if negb (m_get_desc m || m_get_sub m || m_get_data m || m_get_rest m) then rep 400 (m_id m)
    else if attached st name then
      if o_queue_full st then rep 503 (m_id m)
      else match find_topic name (w_loaded st) with
           | Some ti => topic_get rp st ti asuser m
           | None => rep (o_code st) (m_id m)
           end
    else if m_get_desc m || m_get_sub m then
      if o_queue_full st then rep 503 (m_id m)
      else if m_get_desc m && negb (m_get_sub m || m_get_data m || m_get_rest m) then offline_get_desc st name m
      else offline_get_sub st asuser name m
    else rep 403 (m_id m)
  end.

Definition h_set (rp : repairs) (c : cfg) (st : state) (asuser : N) (m : msg) : outcome :=
  match expand asuser m with
  | ExpErr code => rep code (m_id m)
  | ExpOk name =>
    if negb (m_set_desc m || m_set_sub m || m_set_tags m || m_set_cred m) then rep 400 (m_id m)
    else if attached st name then
      if o_queue_full st then rep 503 (m_id m)
      else match find_topic name (w_loaded st) with
           | Some ti => topic_set rp c st ti asuser m
           | None => rep (o_code st) (m_id m)
           end
    else if m_set_tags m || m_set_cred m then rep 403 (m_id m)
    else if o_queue_full st then rep 503 (m_id m)
    else offline_set_sub st asuser name m
  end.

(* parseMsgClientDel: "" means "msg" *)
Definition del_what_known (w : str) : bool := is_empty w || eqs w s_msg || eqs w s_topic || eqs w s_sub || eqs w s_cred.

Definition h_del (rp : repairs) (st : state) (asuser : N) (m : msg) : outcome :=
  if eqs (m_what m) s_user then rep (o_code st) (m_id m)        (* replyDelUser *)
  else match expand asuser m with
       | ExpErr code => rep code (m_id m)
       | ExpOk name =>
         if negb (del_what_known (m_what m)) then rep 400 (m_id m)
         else if attached st name && negb (eqs (m_what m) s_topic) then
           if o_queue_full st then rep 503 (m_id m) else rep (o_code st) (m_id m)
         else if eqs (m_what m) s_topic then
           if o_queue_full st then rep 503 (m_id m) else topic_unreg rp st asuser name m
         else rep 409 (m_id m)
       end.

Definition h_note (rp : repairs) (st : state) (asuser : N) (m : msg) : outcome :=
  if (s_ver st =? 0) || (asuser =? 0) then Silent
  else match expand asuser m with
       | ExpErr _ => Silent
       | ExpOk name =>
         let w := m_what m in
         let go : outcome :=
           if attached st name then (if o_queue_full st then rep 503 [] else Silent)
           else if eqs w s_recv || (eqs w s_call && (eqs (m_event m) s_ringing || eqs (m_event m) s_hangup || eqs (m_event m) s_accept))
           then (if o_queue_full st then rep 503 [] else Silent)
           else rep 409 [] in
         if eqs w s_data then (if m_payload m then go else Silent)
         else if eqs w s_kp || eqs w s_kpa || eqs w s_kpv then (if (m_seq m =? 0)%Z then go else Silent)
         else if eqs w s_call then
           if fix_note rp then
             (if has_prefix s_p2p name then (if (m_seq m <=? 0)%Z then Silent else go) else Silent)
           else match get_topic_cat name with
                | CatPanic s => Panic s
                | CatOk CatP2P => if (m_seq m <=? 0)%Z then Silent else go
                | CatOk _ => Silent
                end
         else if eqs w s_read || eqs w s_recv then (if (m_seq m <=? 0)%Z then Silent else go)
         else Silent
       end.

(* ---- Session.dispatch ---- *)
Definition needs_user (k : kind) : bool :=
  match k with KPub | KSub | KLeave | KGet | KSet | KDel => true | _ => false end.

(* extra.obo: rejected before the id of the request is looked at *)
Definition obo_check (st : state) (obo : str) (obo_uid : N) : option N :=
  if is_empty obo then None
  else if negb (s_root st) then Some 403
  else if obo_uid =? 0 then Some 400
  else None.

Definition dispatch (rp : repairs) (c : cfg) (st : state) (m : msg) : outcome :=
  match obo_check st (m_obo m) (m_obo_uid m) with
  | Some code => rep code []
  | None =>
    let asuser := if is_empty (m_obo m) then s_uid st else m_obo_uid m in
    if w_partitioned st then rep 502 (m_id m)
    else
      let k := m_kind m in
      match k with
      | KHi => h_hello st m
      | KNote => h_note rp st asuser m
      | _ =>
        if s_ver st =? 0 then rep 409 (m_id m)               (* checkVers *)
        else if needs_user k && (asuser =? 0) then rep 401 (m_id m)  (* checkUser *)
        else match k with
             | KAcc => h_acc rp c st m
             | KLogin => h_login c st m
             | KSub => h_subscribe rp c st asuser m
             | KLeave => h_leave st asuser m
             | KPub => h_publish rp c st asuser m
             | KGet => h_get rp st asuser m
             | KSet => h_set rp c st asuser m
             | KDel => h_del rp st asuser m
             | _ => Silent
             end
      end
  end.

(* ---- Session.dispatchRaw / the gRPC loop ---- *)
Definition handle (rp : repairs) (c : cfg) (st : state) (f : frame) : outcome :=
  match f with
  | PbSet m present empty =>
    (* pbCliDeserialize runs before anything else, also on a terminating session *)
    if present && empty && negb (fix_pb rp) then Panic site_pb_setquery
    else dispatch rp c st m
  | _ =>
    if s_terminating st then Silent                 (* queueOut drops everything on a terminating session *)
    else match f with
         | Undecodable => rep 400 []
         | ProbeOne => rep 0 []
         | NoKind obo obo_uid =>
           match obo_check st obo obo_uid with Some code => rep code [] | None => rep 400 [] end
         | Decoded m => dispatch rp c st m
         | PbSet _ _ _ => Silent
         end
  end.

(* ---- the exact triggers of the unrepaired panics, as predicates on the input ---- *)
Definition acting_user (st : state) (m : msg) : N := if is_empty (m_obo m) then s_uid st else m_obo_uid m.

Definition passes_front (st : state) (m : msg) : bool :=
  match obo_check st (m_obo m) (m_obo_uid m) with Some _ => false | None => true end
  && negb (w_partitioned st).

Definition passes_checks (st : state) (m : msg) : bool :=
  passes_front st m && negb (s_ver st =? 0) && negb (needs_user (m_kind m) && (acting_user st m =? 0)).

Definition cat_panics (name : str) : bool := match get_topic_cat name with CatPanic _ => true | CatOk _ => false end.

Definition expanded (st : state) (m : msg) : option str :=
  match expand (acting_user st m) m with ExpOk n => Some n | ExpErr _ => None end.

Definition is_kind (k1 k2 : kind) : bool :=
  match k1, k2 with
  | KHi, KHi | KAcc, KAcc | KLogin, KLogin | KSub, KSub | KLeave, KLeave | KPub, KPub
  | KGet, KGet | KSet, KSet | KDel, KDel | KNote, KNote => true
  | _, _ => false
  end.

(* {acc} with an unknown temporary scheme from a session that is not logged in *)
Definition trig_acc (c : cfg) (st : state) (m : msg) : bool :=
  is_kind (m_kind m) KAcc && passes_checks st m && negb (has_prefix s_new (m_user m)) && negb (is_empty (m_tmpscheme m))
  && (s_uid st =? 0) && negb (mem_str (m_tmpscheme m) (auth_schemes c)).

(* {note what=call} on a topic name GetTopicCat does not know *)
Definition trig_note (st : state) (m : msg) : bool :=
  is_kind (m_kind m) KNote && passes_front st m && negb (s_ver st =? 0) && negb (acting_user st m =? 0)
  && eqs (m_what m) s_call
  && match expanded st m with Some n => cat_panics n | None => false end.

(* {del what=topic} on a topic that is not loaded, whose name GetTopicCat does not know *)
Definition trig_unreg (st : state) (m : msg) : bool :=
  is_kind (m_kind m) KDel && passes_checks st m && eqs (m_what m) s_topic && negb (o_queue_full st) && negb (o_store_err st)
  && match expanded st m with
     | Some n => match find_topic n (w_loaded st) with Some _ => false | None => cat_panics (row_name m n) end
     | None => false
     end.

(* extra.attachments while no media handler is configured *)
Definition trig_media (c : cfg) (st : state) (m : msg) : bool :=
  m_attachments m && negb (media_configured c) && passes_checks st m &&
  match m_kind m with
  | KAcc => has_prefix s_new (m_user m) && negb (o_reject st)
  | KSub => (has_prefix s_new (m_topic m) || has_prefix s_nch (m_topic m)) && negb (o_reject st) && negb (o_queue_full st)
            && negb (attached st (s_grp ++ [o_fresh st]))
            && match find_topic (s_grp ++ [o_fresh st]) (w_loaded st) with Some _ => false | None => true end
  | KSet => m_set_desc m && negb (o_reject st) && negb (o_queue_full st)
            && match expanded st m with
               | Some n => attached st n && match find_topic n (w_loaded st) with Some _ => true | None => false end
               | None => false
               end
  | KPub => negb (o_reject st) && negb (o_queue_full st)
            && match expanded st m with
               | Some n => (attached st n || eqs n s_sys)
                           && match find_topic n (w_loaded st) with
                              | Some ti => negb (t_p2p ti && negb (mem_n (acting_user st m) (t_members ti)))
                              | None => false
                              end
               | None => false
               end
  | _ => false
  end.

(* a request on behalf of a user who is not a member of the addressed, attached P2P topic *)
Definition trig_original (st : state) (m : msg) : bool :=
  passes_checks st m && negb (o_queue_full st) &&
  match expanded st m with
  | Some n =>
    match find_topic n (w_loaded st) with
    | Some ti =>
      t_p2p ti && negb (mem_n (acting_user st m) (t_members ti)) &&
      match m_kind m with
      | KPub => attached st n || eqs n s_sys
      | KGet => attached st n && m_get_data m
      | _ => false
      end
    | None => false
    end
  | None => false
  end.

(* a request which makes a loaded topic ask for the default access mode of a category that the table of
   getDefaultAccess lacked (the sys topic): {sub} of a user whose cached subscription is self-banned (no J in
   modeWant) without a new mode, {set sub} of the same kind, {set sub user=X} inviting a new user without a mode *)
Definition defacs_missing (c : cat) : bool := match access_for no_repairs c with None => true | Some _ => false end.

Definition this_reaches (st : state) (ti : topic_info) (u : N) (m : msg) : bool :=
  negb (o_reject st) && negb (o_store_err st) &&
  match find_pud u (t_peruser ti) with
  | Some p => negb (pu_deleted p) && negb (m_set_mode m) && negb (pu_want_joiner p) && defacs_missing (t_cat ti)
  | None => false
  end.

Definition another_reaches (st : state) (ti : topic_info) (u target : N) (m : msg) : bool :=
  match find_pud u (t_peruser ti) with
  | Some host =>
    pu_sharer host && negb (is_channel (m_topic m)) && negb (o_reject st)
    && match find_pud target (t_peruser ti) with Some p => pu_deleted p | None => true end
    && negb (m_set_mode m) && defacs_missing (t_cat ti)
  | None => false
  end.

Definition set_sub_reaches (st : state) (ti : topic_info) (u : N) (m : msg) : bool :=
  negb (negb (is_empty (m_set_user m)) && (m_set_user_uid m =? 0)) &&
  (if (if m_set_user_uid m =? 0 then u else m_set_user_uid m) =? u then this_reaches st ti u m
   else another_reaches st ti u (m_set_user_uid m) m).

Definition sub_name (st : state) (m : msg) : option str :=
  if has_prefix s_new (m_topic m) || has_prefix s_nch (m_topic m) then Some (s_grp ++ [o_fresh st]) else expanded st m.

Definition trig_defacs (st : state) (m : msg) : bool :=
  passes_checks st m && negb (o_queue_full st) &&
  match m_kind m with
  | KSub =>
    match sub_name st m with
    | Some n => negb (attached st n)
                && match find_topic n (w_loaded st) with
                   | Some ti => negb (t_inactive ti) && this_reaches st ti (acting_user st m) m
                   | None => false
                   end
    | None => false
    end
  | KSet =>
    m_set_sub m &&
    match expanded st m with
    | Some n => attached st n
                && match find_topic n (w_loaded st) with
                   | Some ti => set_sub_reaches st ti (acting_user st m) m
                   | None => false
                   end
    | None => false
    end
  | _ => false
  end.

Definition dtrigger (c : cfg) (st : state) (m : msg) : bool :=
  trig_acc c st m || trig_note st m || trig_unreg st m || trig_media c st m || trig_original st m || trig_defacs st m.

Definition trigger (c : cfg) (st : state) (f : frame) : bool :=
  match f with
  | PbSet m present empty => (present && empty) || dtrigger c st m
  | Decoded m => negb (s_terminating st) && dtrigger c st m
  | _ => false
  end.

(* ---- classes of requests that must be refused with an error code ---- *)
Definition takes_topic (m : msg) : bool :=
  match m_kind m with
  | KPub | KSub | KLeave | KGet | KSet => true
  | KDel => negb (eqs (m_what m) s_user)
  | _ => false
  end.

Definition bad_request (st : state) (m : msg) : bool :=
  match m_kind m with
  | KNote => false
  | KHi => false
  | k =>
    (s_ver st =? 0)                                        (* out of sequence: no {hi} *)
    || (needs_user k && (acting_user st m =? 0))           (* unauthorised: not logged in *)
    || (takes_topic m && is_empty (m_topic m))             (* malformed: no topic *)
  end.

Definition first_code (o : outcome) : option N :=
  match o with Replies (r :: _) => Some (r_code r) | _ => None end.

(* ---- concrete inputs (witnesses of the refutations; each was replayed on the real server) ---- *)
Definition msg0 (k : kind) : msg := {|
  m_kind := k; m_id := [49]; m_topic := []; m_topic_uid := 0; m_what := [];
  m_get_desc := false; m_get_sub := false; m_get_data := false; m_get_rest := false;
  m_set_desc := false; m_set_private := false; m_set_sub := false; m_set_mode := false; m_set_tags := false; m_set_cred := false;
  m_set_joiner := false; m_set_user := []; m_set_user_uid := 0;
  m_seq := 0%Z; m_event := []; m_payload := false; m_unsub := false; m_user := []; m_scheme := []; m_tmpscheme := [];
  m_hi_ver := 0; m_hi_ver_empty := true; m_obo := []; m_obo_uid := 0; m_attachments := false |}.

Definition cfg_all : cfg := {| media_configured := true; calls_configured := true; validators := true; push_configured := true;
  auth_schemes := [[98;97;115;105;99]; [116;111;107;101;110]] |}.            (* "basic", "token" *)
Definition cfg_nomedia : cfg := {| media_configured := false; calls_configured := true; validators := true; push_configured := true;
  auth_schemes := [[98;97;115;105;99]; [116;111;107;101;110]] |}.

Definition grpX : str := [103;114;112;88].
Definition p2pAB : str := [112;50;112;65;66].

Definition st_base (ver uid : N) (root : bool) (subs : list str) (loaded : list topic_info) : state := {|
  s_terminating := false; s_ver := ver; s_uid := uid; s_root := root; s_subs := subs; w_partitioned := false;
  w_loaded := loaded; w_rows := []; o_code := 200; o_reject := false; o_store_err := false; o_queue_full := false; o_fresh := 9 |}.

Definition pud_full : pud := {| pu_deleted := false; pu_want_joiner := true; pu_sharer := true |}.
Definition pud_sys : pud := {| pu_deleted := false; pu_want_joiner := true; pu_sharer := false |}.         (* JRWPD *)
Definition pud_banned : pud := {| pu_deleted := false; pu_want_joiner := false; pu_sharer := false |}.    (* modeWant = N *)

Definition st_hi : state := st_base 22 0 false [] [].            (* {hi} done, anonymous *)
Definition st_in : state := st_base 22 5 false [] [].            (* logged in as user 5 *)
Definition st_att : state :=                                      (* logged in, attached to the loaded group grpX *)
  st_base 22 5 false [grpX] [{| t_name := grpX; t_inactive := false; t_owner := 5; t_p2p := false; t_subcount := 2; t_members := [5; 6];
                                              t_cat := CatGrp; t_peruser := [(5, pud_full); (6, pud_full)] |}].
Definition st_root_p2p : state :=                                 (* root user 7, attached to the p2p topic of users 5 and 7 *)
  st_base 22 7 true [p2pAB] [{| t_name := p2pAB; t_inactive := false; t_owner := 0; t_p2p := true; t_subcount := 2; t_members := [5; 7];
                                               t_cat := CatP2P; t_peruser := [(5, pud_full); (7, pud_full)] |}].

(* {"acc":{"id":"1","user":"","tmpscheme":"bogus"}} *)
Definition w_acc : msg :=
  let m := msg0 KAcc in {| m_kind := KAcc; m_id := m_id m; m_topic := []; m_topic_uid := 0; m_what := [];
  m_get_desc := false; m_get_sub := false; m_get_data := false; m_get_rest := false;
  m_set_desc := false; m_set_private := false; m_set_sub := false; m_set_mode := false; m_set_tags := false; m_set_cred := false;
  m_set_joiner := false; m_set_user := []; m_set_user_uid := 0;
  m_seq := 0%Z; m_event := []; m_payload := false; m_unsub := false; m_user := []; m_scheme := []; m_tmpscheme := [98;111;103;117;115];
  m_hi_ver := 0; m_hi_ver_empty := true; m_obo := []; m_obo_uid := 0; m_attachments := false |}.

Definition with_topic (k : kind) (topic what : str) (seq : Z) (att : bool) (obo : str) (obo_uid : N) (data : bool) (user : str) : msg := {|
  m_kind := k; m_id := [55]; m_topic := topic; m_topic_uid := 0; m_what := what;
  m_get_desc := data; m_get_sub := false; m_get_data := data; m_get_rest := false;
  m_set_desc := false; m_set_private := false; m_set_sub := false; m_set_mode := false; m_set_tags := false; m_set_cred := false;
  m_set_joiner := false; m_set_user := []; m_set_user_uid := 0;
  m_seq := seq; m_event := []; m_payload := false; m_unsub := false; m_user := user; m_scheme := []; m_tmpscheme := [];
  m_hi_ver := 0; m_hi_ver_empty := true; m_obo := obo; m_obo_uid := obo_uid; m_attachments := att |}.

(* {"note":{"topic":"ab","what":"call","seq":1}} and topic "xyzzy" *)
Definition w_note_short : msg := with_topic KNote [97;98] s_call 1%Z false [] 0 false [].
Definition w_note_prefix : msg := with_topic KNote [120;121;122;122;121] s_call 1%Z false [] 0 false [].
(* {"del":{"id":"7","topic":"ab","what":"topic"}} *)
Definition w_del_topic : msg := with_topic KDel [97;98] s_topic 0%Z false [] 0 false [].
(* {"pub":{"id":"7","topic":"grpX","content":..},"extra":{"attachments":[..]}} without a media handler *)
Definition w_pub_att : msg := with_topic KPub grpX [] 0%Z true [] 0 false [].
(* {"acc":{"id":"7","user":"new",...},"extra":{"attachments":[..]}} without a media handler, anonymous session *)
Definition w_acc_att : msg := with_topic KAcc [] [] 0%Z true [] 0 false s_new.
(* root: {"pub":{"id":"7","topic":"p2pAB",..},"extra":{"obo":"usr6"}} : user 6 is not a member *)
Definition w_pub_obo : msg := with_topic KPub p2pAB [] 0%Z false [117;115;114;54] 6 false [].
Definition w_get_obo : msg := with_topic KGet p2pAB [] 0%Z false [117;115;114;54] 6 true [].
(* non-root: {"get":{"id":"7","topic":"me","what":"desc"},"extra":{"obo":"usrX"}} *)
Definition w_get_obo_nonroot : msg := with_topic KGet s_me [] 0%Z false [117;115;114;88] 0 true [].

(* ---- the default-access site: state changes of the requests which lead to it ---- *)
(* [after st m]: the state after request [m] was handled without a refusal (all oracles false), as far as the
   default-access site reads the state: the session's attachments and the acting user's cached subscription in a
   loaded topic.  {sub}: subscriptionReply attaches the session when the resulting mode has J; thisUserSub
   caches the subscription.  {set sub mode=..} on the own subscription: modeWant changes; without J the user is
   evicted (evictUser detaches the sessions).  {leave}: detached; with unsub the cached subscription is marked
   deleted.  Everything else leaves these parts of the state alone. *)
Fixpoint set_pud (u : N) (p : pud) (l : list (N * pud)) : list (N * pud) :=
  match l with
  | [] => [(u, p)]
  | (v, q) :: l' => if u =? v then (u, p) :: l' else (v, q) :: set_pud u p l'
  end.

Fixpoint remove_str (x : str) (l : list str) : list str :=
  match l with [] => [] | y :: l' => if eqs x y then remove_str x l' else y :: remove_str x l' end.

Fixpoint update_topic (name : str) (f : topic_info -> topic_info) (l : list topic_info) : list topic_info :=
  match l with
  | [] => []
  | t :: l' => if eqs name (t_name t) then f t :: l' else t :: update_topic name f l'
  end.

Definition with_peruser (ti : topic_info) (pu : list (N * pud)) : topic_info :=
  {| t_name := t_name ti; t_inactive := t_inactive ti; t_owner := t_owner ti; t_p2p := t_p2p ti; t_subcount := t_subcount ti;
     t_members := t_members ti; t_cat := t_cat ti; t_peruser := pu |}.

Definition with_subs_loaded (st : state) (subs : list str) (loaded : list topic_info) : state :=
  {| s_terminating := s_terminating st; s_ver := s_ver st; s_uid := s_uid st; s_root := s_root st; s_subs := subs;
     w_partitioned := w_partitioned st; w_loaded := loaded; w_rows := w_rows st; o_code := o_code st; o_reject := o_reject st;
     o_store_err := o_store_err st; o_queue_full := o_queue_full st; o_fresh := o_fresh st |}.

Definition after (st : state) (m : msg) : state :=
  let u := acting_user st m in
  match expanded st m with
  | None => st
  | Some n =>
    match find_topic n (w_loaded st) with
    | None => st
    | Some ti =>
      let old := find_pud u (t_peruser ti) in
      let sharer := match old with Some p => pu_sharer p | None => false end in
      match m_kind m with
      | KSub =>
        if attached st n then st
        else
          let live := match old with Some p => negb (pu_deleted p) | None => false end in
          let joiner := if m_set_mode m then m_set_joiner m else true in    (* no mode: unchanged if J, else un-self-banned *)
          let p := {| pu_deleted := false; pu_want_joiner := joiner; pu_sharer := if live then sharer else false |} in
          with_subs_loaded st (if joiner then n :: s_subs st else s_subs st)
                           (update_topic n (fun t => with_peruser t (set_pud u p (t_peruser t))) (w_loaded st))
      | KSet =>
        if attached st n && m_set_sub m && is_empty (m_set_user m) && m_set_mode m then
          let p := {| pu_deleted := false; pu_want_joiner := m_set_joiner m; pu_sharer := sharer && m_set_joiner m |} in
          with_subs_loaded st (if m_set_joiner m then s_subs st else remove_str n (s_subs st))
                           (update_topic n (fun t => with_peruser t (set_pud u p (t_peruser t))) (w_loaded st))
        else st
      | KLeave =>
        if attached st n then
          with_subs_loaded st (remove_str n (s_subs st))
                           (if m_unsub m then
                              update_topic n (fun t => with_peruser t (set_pud u {| pu_deleted := true; pu_want_joiner := false; pu_sharer := false |} (t_peruser t))) (w_loaded st)
                            else w_loaded st)
        else st
      | _ => st
      end
    end
  end.

(* a history of decoded requests from one session: the outcome of each, in order *)
Fixpoint run (rp : repairs) (c : cfg) (st : state) (ms : list msg) : list outcome :=
  match ms with
  | [] => []
  | m :: rest => handle rp c st (Decoded m) :: run rp c (after st m) rest
  end.

(* the three-request witness of the default-access site (found by the lifecycle stream of the fuzz half):
   a root session: {sub sys}; {set sys sub mode=N}; {sub sys} *)
Definition sys_topic : topic_info :=
  {| t_name := s_sys; t_inactive := false; t_owner := 0; t_p2p := false; t_subcount := 0; t_members := []; t_cat := CatSys; t_peruser := [] |}.
Definition st_root : state := st_base 22 7 true [] [sys_topic].           (* root user 7, logged in; sys is always loaded *)

Definition set_fields (m : msg) (set_sub set_mode joiner : bool) : msg := {|
  m_kind := m_kind m; m_id := m_id m; m_topic := m_topic m; m_topic_uid := m_topic_uid m; m_what := m_what m;
  m_get_desc := false; m_get_sub := false; m_get_data := false; m_get_rest := false;
  m_set_desc := false; m_set_private := false; m_set_sub := set_sub; m_set_mode := set_mode; m_set_tags := false; m_set_cred := false;
  m_set_joiner := joiner; m_set_user := []; m_set_user_uid := 0;
  m_seq := 0%Z; m_event := []; m_payload := false; m_unsub := false; m_user := []; m_scheme := []; m_tmpscheme := [];
  m_hi_ver := 0; m_hi_ver_empty := true; m_obo := []; m_obo_uid := 0; m_attachments := false |}.

Definition w_sub_sys : msg := set_fields (with_topic KSub s_sys [] 0%Z false [] 0 false []) false false false.   (* {"sub":{"id":"7","topic":"sys"}} *)
Definition w_set_sys_n : msg := set_fields (with_topic KSet s_sys [] 0%Z false [] 0 false []) true true false.   (* {"set":{"id":"7","topic":"sys","sub":{"mode":"N"}}} *)
Definition w_defacs : list msg := [w_sub_sys; w_set_sys_n; w_sub_sys].

(* the state the three requests lead to, given directly: root, detached, cached sys subscription self-banned *)
Definition st_root_sys_banned : state :=
  st_base 22 7 true [] [with_peruser sys_topic [(7, pud_banned)]].
