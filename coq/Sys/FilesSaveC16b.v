(* C16  messagesMapper.Save (server/store/store.go:666-712) and its caller
   Topic.saveAndBroadcastMessage (server/topic.go:965-1003), statement by statement, above the
   store slice of Sys/Files.v.  Definitions only (lemmas: Sys/FilesSaveC16bProofs.v).

   Save makes up to four adapter calls, in this order:
     TopicUpdateOnMessage ; MessageSave ; [SubsUpdate] ; [FileLinkAttachments]
   the third only for a sender who reads the topic (readBySender) and whose uid is not zero - its
   error is IGNORED -, the fourth only when the attachment list resolves to at least one file id -
   its error is RETURNED, after the message row has been stored.  Whether the attachments are
   linked must not depend on readBySender or on the sender: this is what the theorems of
   Props/PropC16.v (section "Save") state, for every sender mode.

   The adapter calls have the semantics of db/mysql/adapter.go (= harness memverif):
     TopicUpdateOnMessage  UPDATE topics SET seqid=?,touchedat=? WHERE name=?   (no row: no error)
     MessageSave           INSERT INTO messages; FOREIGN KEY(topic); the id is the AUTO_INCREMENT value
     SubsUpdate            UPDATE subscriptions SET recvseqid=?,readseqid=? WHERE topic=? [AND userid=?]
                           (zero uid: EVERY subscription of the topic; no row: no error)
     FileLinkAttachments   one transaction: FOREIGN KEY(msgid), FOREIGN KEY(fileid) for every id,
                           all rows or none
   and each of them can fail for a reason outside the slice (store failure, duplicate (topic,seqid)
   for MessageSave): the fault plan [save_faults], universally quantified in the theorems. *)
From Coq Require Import NArith ZArith List Bool.
From Tinode Require Import Pure.Url Sys.Files.
Import ListNotations.

(* subscription row: only the columns Save writes *)
Record sub_c16b := { sb_topic : N; sb_user : N; sb_recv : N; sb_read : N }.

(* the adapter calls Save can make, as memverif's call log names them *)
Inductive call_c16b := CTopicUpdateOnMessage | CMessageSave | CSubsUpdate | CFileLinkAttachments.

Record sstate_c16b := {
  sv_fs : state;                   (* uploads, link rows, message rows, topics, users, bytes (Sys/Files.v) *)
  sv_seq : list (N * N);           (* topics.seqid by topic *)
  sv_subs : list sub_c16b;         (* subscriptions *)
  sv_calls : list (call_c16b * bool)   (* ghost: the adapter calls made so far, true = made to fail by the fault plan *)
}.

(* types.Message as Save reads it.  From is asUid.String(); types.ParseUid of that text gives the
   uid back (Pure/Uid.v round trip), 0 = the zero uid *)
Record msg_c16b := { mg_topic : N; mg_seq : N; mg_from : N }.

(* the adapter call returns an error for a reason outside the slice *)
Record save_faults := { ff_topic : bool; ff_msg : bool; ff_subs : bool; ff_link : bool }.

Definition no_faults_c16b : save_faults :=
  {| ff_topic := false; ff_msg := false; ff_subs := false; ff_link := false |}.

Definition with_fs_c16b (s : sstate_c16b) (f : state) : sstate_c16b :=
  {| sv_fs := f; sv_seq := sv_seq s; sv_subs := sv_subs s; sv_calls := sv_calls s |}.

(* every adapter call is logged first (memverif: begin()), then fails as planned or runs *)
Definition log_c16b (s : sstate_c16b) (c : call_c16b) (fault : bool) : sstate_c16b :=
  {| sv_fs := sv_fs s; sv_seq := sv_seq s; sv_subs := sv_subs s; sv_calls := sv_calls s ++ [(c, fault)] |}.

(* The four calls: the result is the new state and [true] iff the call returned an error; a call that
   returns an error changes nothing but the log (each call is one transaction). *)

(* adp.TopicUpdateOnMessage(msg.Topic, msg) *)
Definition topic_update_on_message_c16b (fault : bool) (s0 : sstate_c16b) (m : msg_c16b) : sstate_c16b * bool :=
  let s := log_c16b s0 CTopicUpdateOnMessage fault in
  if fault then (s, true)
  else ({| sv_fs := sv_fs s;
           sv_seq := map (fun p => if (fst p =? mg_topic m)%N then (fst p, mg_seq m) else p) (sv_seq s);
           sv_subs := sv_subs s; sv_calls := sv_calls s |}, false).

(* adp.MessageSave(msg): the row gets the next AUTO_INCREMENT id (msg.SetUid(id)) *)
Definition message_save_c16b (fault : bool) (s0 : sstate_c16b) (m : msg_c16b) : sstate_c16b * bool :=
  let s := log_c16b s0 CMessageSave fault in
  if fault then (s, true)
  else if negb (memN (mg_topic m) (topics (sv_fs s))) then (s, true)          (* FOREIGN KEY(topic) *)
  else
    let f := sv_fs s in
    let mid := next_mid f in
    (with_fs_c16b s
      {| files := files f; links := links f; msgs := (mid, mg_topic m) :: msgs f; next_mid := N.succ mid;
         topics := topics f; users := users f; disk := disk f; att := att f |}, false).

(* adp.SubsUpdate(topic, uid, {RecvSeqId: seq, ReadSeqId: seq}) *)
Definition subs_update_c16b (fault : bool) (s0 : sstate_c16b) (topic uid seq : N) : sstate_c16b * bool :=
  let s := log_c16b s0 CSubsUpdate fault in
  if fault then (s, true)
  else ({| sv_fs := sv_fs s; sv_seq := sv_seq s;
           sv_subs := map (fun r =>
             if (sb_topic r =? topic)%N && ((uid =? 0)%N || (sb_user r =? uid)%N)
             then {| sb_topic := sb_topic r; sb_user := sb_user r; sb_recv := seq; sb_read := seq |}
             else r) (sv_subs s);
           sv_calls := sv_calls s |}, false).

(* adp.FileLinkAttachments("", ZeroUid, msg.Uid(), attachments) *)
Definition file_link_msg_c16b (fault : bool) (s0 : sstate_c16b) (mid : N) (fids : list N) : sstate_c16b * bool :=
  let s := log_c16b s0 CFileLinkAttachments fault in
  if fault then (s, true)
  else if negb (memN mid (map fst (msgs (sv_fs s)))) then (s, true)           (* FOREIGN KEY(msgid) *)
  else if negb (forallb (fun f => memN f (file_ids (sv_fs s))) fids) then (s, true)   (* FOREIGN KEY(fileid): rolled back *)
  else
    let f := sv_fs s in
    (with_fs_c16b s
      {| files := files f; links := links f ++ map (fun x => (x, TMsg mid)) fids;
         msgs := msgs f; next_mid := next_mid f; topics := topics f; users := users f; disk := disk f;
         att := att f ++ map (fun x => (x, TMsg mid)) (filter (fun x => is_done x (files f)) fids) |}, false).

(* Go's (error, bool) result: [sr_err] = an error is returned, [sr_marked] = markedReadBySender *)
Record save_result := { sr_err : bool; sr_marked : bool }.

(* messagesMapper.Save(msg, attachmentURLs, readBySender).
   [handler]: mediaHandler != nil; [serve]: the serve prefix of the fs handler's GetIdFromUrl. *)
Definition save_c16b (ft : save_faults) (handler : bool) (serve : list N)
    (s : sstate_c16b) (m : msg_c16b) (urls : list (list N)) (read_by_sender : bool)
    : sstate_c16b * save_result :=
  (* msg.InitTimes(); msg.SetUid(Store.GetUid()) - replaced by the database id in MessageSave *)
  (* err := adp.TopicUpdateOnMessage(msg.Topic, msg); if err != nil { return err, false } *)
  let r1 := topic_update_on_message_c16b (ff_topic ft) s m in
  let s1 := fst r1 in
  if snd r1 then (s1, {| sr_err := true; sr_marked := false |})
  else
    (* err = adp.MessageSave(msg); if err != nil { return err, false } *)
    let r2 := message_save_c16b (ff_msg ft) s1 m in
    let s2 := fst r2 in
    if snd r2 then (s2, {| sr_err := true; sr_marked := false |})
    else
      let mid := next_mid (sv_fs s1) in                   (* msg.Uid() from here on *)
      (* markedReadBySender := false
         if readBySender { fromUid := types.ParseUid(msg.From); if !fromUid.IsZero() {
            if subErr := adp.SubsUpdate(...); subErr != nil { log } else { markedReadBySender = true } } } *)
      let sm :=
        if read_by_sender then
          let from_uid := mg_from m in
          if negb (from_uid =? 0)%N then
            let r3 := subs_update_c16b (ff_subs ft) s2 (mg_topic m) from_uid (mg_seq m) in
            (fst r3, negb (snd r3))                        (* the error is ignored *)
          else (s2, false)
        else (s2, false) in
      let s3 := fst sm in
      let marked := snd sm in
      (* if len(attachmentURLs) > 0 && mediaHandler != nil { *)
      if negb (length urls =? 0)%nat && handler then
        (* for _, url := range attachmentURLs { if fid := GetIdFromUrl(url); !fid.IsZero() { append } } *)
        let attachments := resolve serve urls in
        (* if len(attachments) > 0 { return adp.FileLinkAttachments(...), markedReadBySender } *)
        if negb (length attachments =? 0)%nat then
          let r4 := file_link_msg_c16b (ff_link ft) s3 mid attachments in
          (fst r4, {| sr_err := snd r4; sr_marked := marked |})
        else (s3, {| sr_err := false; sr_marked := marked |})
      else
        (* return nil, markedReadBySender *)
        (s3, {| sr_err := false; sr_marked := marked |}).

(* ------------------------------------------------------------------ *)
(* Topic.saveAndBroadcastMessage up to the point where Save has returned (topic.go:966-1003)   *)

(* types.AccessMode bits: ModeRead = 1<<1, ModeWrite = 1<<2 *)
Definition is_reader_c16b (m : N) : bool := negb (N.land m 2 =? 0)%N.
Definition is_writer_c16b (m : N) : bool := negb (N.land m 4 =? 0)%N.

Inductive pub_outcome_c16b :=
| PubDenied                       (* ErrPermissionDenied: nothing is stored *)
| PubFailed                       (* Save returned an error: ErrUnknown, t.lastID is not advanced *)
| PubAccepted (marked : bool).    (* NoErrAccepted {seq} *)

(* [is_sys]: t.cat == TopicCatSys; [want], [given]: t.perUser[asUid] (both 0 when the sender has no
   subscription: the zero value of perUserData); [last_id]: t.lastID *)
Definition pub_save_c16b (ft : save_faults) (handler : bool) (serve : list N) (s : sstate_c16b)
    (is_sys : bool) (want given : N) (last_id topic as_uid : N) (urls : list (list N))
    : sstate_c16b * pub_outcome_c16b :=
  (* if t.cat != types.TopicCatSys { if !(pud.modeWant & pud.modeGiven).IsWriter() { deny } } *)
  if negb is_sys && negb (is_writer_c16b (N.land want given)) then (s, PubDenied)
  else
    let r := save_c16b ft handler serve s
               {| mg_topic := topic; mg_seq := last_id + 1; mg_from := as_uid |} urls
               (is_reader_c16b (N.land given want)) in
    (fst r, if sr_err (snd r) then PubFailed else PubAccepted (sr_marked (snd r))).

(* vocabulary of the theorems *)
Definition sub_of_c16b (s : sstate_c16b) (topic uid : N) : option sub_c16b :=
  find (fun r => (sb_topic r =? topic)%N && (sb_user r =? uid)%N) (sv_subs s).
