(* C04, layer 2: what a topic's history shows.  Definitions only.

   A simple specification of message history ("which ids does each user
   see, which ids were deleted for him") and its connection to the product
   model Sys/Topic.v:

     hspec      the specification state: live messages, per-user soft-hidden
                ids, hard-deleted ids, the delete-transaction counter
     hs_step    its four transitions (publish, delete soft/hard, unsubscribe)
     abs        what a store (message rows + dellog rows) shows, as an hspec
     event_of   the specification event of one request of the product model,
                read off the request, the reply and - for a deletion - the
                requester's effective mode and lastID in the state before it
     hs_run     the specification run along a history of the product model

   The proofs (Sys/TopicHistProofs.v) show that [abs] of the store after any
   history equals [hs_run] of that history, and characterise the answers of
   {get data} and {get del} in terms of [abs]. *)
From Coq Require Import ZArith NArith List Bool.
From Tinode Require Import Base.Util Pure.Acs Sys.Topic.
Import ListNotations.
Open Scope Z_scope.

(* ------------------------------------------------------------------ *)
(* what the stored rows say                                             *)

(* the message row numbered x *)
Definition find_msg (s : store) (x : Z) : option msgrow := find (fun m => m_seq m =? x) (msgs s).

(* x lies in a deletion-log row written for user u (u = 0: rows of hard deletions) *)
Definition logged_for (s : store) (u : N) (x : Z) : bool :=
  existsb (fun d => N.eqb (d_for d) u && in_range x (d_low d) (d_hi d)) (dellog s).

(* ------------------------------------------------------------------ *)
(* the specification                                                    *)

Record hspec := mkHS {
  hs_live : Z -> option (N * N);   (* id -> (author, content) of a message that exists and is not hard-deleted *)
  hs_soft : N -> Z -> bool;        (* user -> id -> hidden from that user by his own soft deletions *)
  hs_hard : Z -> bool;             (* ids named by hard deletions *)
  hs_delid : Z                     (* number of the last delete transaction *) }.

(* what user u sees under id x *)
Definition hs_visible (a : hspec) (u : N) (x : Z) : option (N * N) :=
  if hs_soft a u x then None else hs_live a x.
(* ids deleted for user u *)
Definition hs_deleted_for (a : hspec) (u : N) (x : Z) : bool := hs_soft a u x || hs_hard a x.

Inductive hevent :=
| HPub (n : Z) (author content : N)            (* message n accepted *)
| HDel (u : N) (hard : bool) (ids : Z -> bool) (* delete transaction accepted from u; hard = for everyone *)
| HUnsub (u : N)                               (* subscription of u deleted *)
| HNone.

Definition hs_step (a : hspec) (e : hevent) : hspec :=
  match e with
  | HPub n au c =>
    mkHS (fun x => if x =? n then Some (au, c) else hs_live a x) (hs_soft a) (hs_hard a) (hs_delid a)
  | HDel u false ids =>
    mkHS (hs_live a) (fun v x => (N.eqb v u && ids x) || hs_soft a v x) (hs_hard a) (hs_delid a + 1)
  | HDel u true ids =>
    mkHS (fun x => if ids x then None else hs_live a x) (hs_soft a) (fun x => ids x || hs_hard a x) (hs_delid a + 1)
  | HUnsub u =>
    mkHS (hs_live a) (fun v x => if N.eqb v u then false else hs_soft a v x) (hs_hard a) (hs_delid a)
  | HNone => a
  end.

(* equality of specification states: pointwise; user id 0 is not a user *)
Definition heq (a b : hspec) : Prop :=
  (forall x, hs_live a x = hs_live b x) /\
  (forall u x, u <> 0%N -> hs_soft a u x = hs_soft b u x) /\
  (forall x, hs_hard a x = hs_hard b x) /\
  hs_delid a = hs_delid b.

(* ------------------------------------------------------------------ *)
(* abstraction of a store                                               *)

Definition abs (s : store) : hspec :=
  mkHS (fun x => match find_msg s x with
                 | Some m => if m_delid m =? 0 then Some (m_from m, m_content m) else None
                 | None => None
                 end)
       (logged_for s)
       (logged_for s 0%N)
       (t_delid s).

(* ------------------------------------------------------------------ *)
(* the ids a delete request denotes: each entry (low, hi) is [low, hi) clipped
   to ids <= lastID; no upper bound (hi = 0) or hi = low: the single id low   *)
Definition req_ids (lastID : Z) (req : list (Z * Z)) (x : Z) : bool :=
  existsb (fun q => (fst q <=? x) && (x <=? lastID) &&
                    (x <? (if (snd q =? 0) || (snd q =? fst q) then fst q + 1 else snd q))) req.

(* the ids covered by the ranges handed to MessageDeleteList *)
Definition covers (rs : list (Z * Z)) (x : Z) : bool :=
  existsb (fun r => in_range x (fst r) (norm_hi (fst r) (snd r))) rs.

(* ------------------------------------------------------------------ *)
(* the specification event of one request                               *)

Definition head_frame (o : out) : option frame :=
  match o with (_, fr) :: _ => Some fr | [] => None end.

(* the user on whose behalf an attached session acts *)
Definition acting (sm : sessmap) (c : cache) (sid : N) : N :=
  match alookup sid (c_sess c) with Some (a, _) => a | None => sess_uid sm sid end.

Definition event_of (sm : sessmap) (x : state) (o : op) (ou : out) : hevent :=
  match ca x with
  | None => HNone
  | Some c =>
    match o, head_frame ou with
    | OPub sid content _, Some (Ctrl code [(_, n)]) =>
      if code =? 202 then HPub n (sess_uid sm sid) content else HNone
    | ODelMsg sid req hard, Some (Ctrl code [(_, _)]) =>
      let u := sess_uid sm sid in
      if code =? 200 then HDel u (hard && is_deleter (user_mode c u)) (req_ids (c_lastid c) req) else HNone
    | OLeave sid true, Some (Ctrl code []) => if code =? 200 then HUnsub (acting sm c sid) else HNone
    | ODelSub sid target, Some (Ctrl code []) => if code =? 200 then HUnsub target else HNone
    | _, _ => HNone
    end
  end.

(* the session a request comes from *)
Definition op_sid (o : op) : option N :=
  match o with
  | OSub a _ _ | OLeave a _ | OPub a _ _ | ONote a _ _ | OGetData a _ _ _ | OGetDesc a | OGetSub a
  | OGetDel a _ _ _ | ODelMsg a _ _ | OSetSub a _ _ | ODelSub a _ => Some a
  | OUnload | ORestart => None
  end.

(* every request comes from a logged-in session (user id 0 is "nobody") *)
Definition op_ok (sm : sessmap) (o : op) : Prop :=
  match op_sid o with Some sid => sess_uid sm sid <> 0%N | None => True end.

(* the store calls of a delete request after the first (the topic row, the subscription
   rows) are not made to fail: a failure there leaves the log rows of the failed request
   in place although the client was told 500 *)
Definition fault_ok (f : fault) (o : op) : Prop :=
  match o with
  | ODelMsg _ _ _ => fails f 1 = true \/ (fails f 2 = false /\ fails f 3 = false)
  | _ => True
  end.

Section Run.
Variable del_ranges : Z -> list (Z * Z) -> option (list (Z * Z)).
Variable norm_ranges : list (Z * Z) -> list (Z * Z).
Variable sm : sessmap.

(* the specification run along a history of the product model *)
Fixpoint hs_run (x : state) (h : list (fault * op)) (a : hspec) : hspec :=
  match h with
  | [] => a
  | fo :: r =>
    let '(x1, o1) := step_f del_ranges norm_ranges sm x fo in
    hs_run x1 r (hs_step a (event_of sm x (snd fo) o1))
  end.
End Run.

(* ------------------------------------------------------------------ *)
(* {get data}: the window of a query and the shape of an answer         *)

Definition in_window (since before x : Z) : bool :=
  ((if 0 <? since then since else 0) <=? x) && (if 0 <? before then x <? before else true).

Definition data_of (o : out) : list (Z * N * N) :=
  flat_map (fun e => match snd e with Data q a c => [(q, a, c)] | _ => [] end) o.
