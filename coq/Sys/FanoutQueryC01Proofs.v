(* Proofs about Sys/FanoutQueryC01.v: description and history queries of attached sessions - channel
   subscriptions, p2p participants, sessions acting on behalf of a user - show the acknowledged numbers. *)
From Coq Require Import ZArith NArith List Bool Lia Permutation.
From Tinode Require Import Sys.Fanout Sys.FanoutProofs Sys.FanoutQueryC01.
From Tinode Require Sys.Topic Sys.TopicTac Sys.TopicOut Sys.TopicImsC01.
Import ListNotations.
Open Scope N_scope.

(* ------------------------------------------------------------------ *)
(* description                                                          *)
Lemma q_desc_reader st s u name i p :
  chan_ok st (name_chan_c01q name) = true -> lookup u (st_users st) = Some p -> has (eff p) bR = true ->
  q_get_desc st s u name i = [(s, QDesc true true (st_lastid st))].
Proof. intros H1 H2 H3. unfold q_get_desc. rewrite H1, H2, H3. reflexivity. Qed.

Lemma q_desc_current st s u name i e full seq :
  In e (q_get_desc st s u name i) -> snd e = QDesc full true seq -> seq = st_lastid st.
Proof.
  unfold q_get_desc. repeat break_match; intros [<-|[]]; cbn; intros H; try discriminate; now inv H.
Qed.

(* ------------------------------------------------------------------ *)
(* history                                                              *)
Lemma q_data_from_store x s u name a b l s' t f q c :
  In (s', QData t f q c) (q_get_data x s u name a b l) ->
  exists m, In m (q_msgs x) /\ Topic.m_seq m = q /\ Topic.m_content m = c /\ (f = 0 \/ f = Topic.m_from m).
Proof.
  unfold q_get_data.
  destruct (negb (chan_ok (q_st x) (name_chan_c01q name))); [intros [E|[]]; discriminate|].
  destruct (has (eff (get_pud (q_st x) u)) bR); [|intros [E|[]]; discriminate].
  destruct (Topic.ad_msg_get_all (store_of_c01q (q_msgs x)) u a b l) as [|m0 ms] eqn:EG; [intros [E|[]]; discriminate|].
  intros H. apply in_app_or in H. destruct H as [H|[E|[]]]; [|discriminate].
  apply in_map_iff in H. destruct H as (m & E & Hin). inv E.
  exists m. split.
  - assert (In m (Topic.ad_msg_get_all (store_of_c01q (q_msgs x)) u a b l)) as K by (rewrite EG; exact Hin).
    apply TopicOut.get_all_in in K. exact K.
  - split; [reflexivity|]. split; [reflexivity|]. destruct (name_chan_c01q name); auto.
Qed.

(* an unbounded query of a reader shows every stored row (at most the adapter's page of 100) *)
Lemma insert_desc_perm m l : Permutation (Topic.insert_desc m l) (m :: l).
Proof.
  induction l as [|x r IH]; cbn; [reflexivity|]. destruct (Topic.m_seq x <? Topic.m_seq m)%Z; [reflexivity|].
  rewrite IH. apply perm_swap.
Qed.
Lemma sort_desc_perm l : Permutation (Topic.sort_desc l) l.
Proof.
  induction l as [|x r IH]; cbn; [reflexivity|]. unfold Topic.sort_desc in *. cbn [fold_right].
  rewrite insert_desc_perm. now constructor.
Qed.
Lemma filter_all {A} (f : A -> bool) l : (forall x, In x l -> f x = true) -> filter f l = l.
Proof.
  induction l as [|x r IH]; cbn; [reflexivity|]. intros H. rewrite (H x (or_introl eq_refl)). f_equal. apply IH. intros y Hy. apply H. now right.
Qed.

Definition rows_live (ms : list Topic.msgrow) : Prop := forall m, In m ms -> Topic.m_delid m = 0%Z /\ (0 <= Topic.m_seq m)%Z.

Lemma q_history_complete ms u :
  rows_live ms -> (length ms <= 100)%nat ->
  Permutation (Topic.ad_msg_get_all (store_of_c01q ms) u 0%Z 0%Z 0%Z) ms.
Proof.
  intros L H. unfold Topic.ad_msg_get_all, store_of_c01q. cbn [Topic.msgs Topic.dellog].
  rewrite filter_all.
  - assert (Z.to_nat (Topic.eff_limit Topic.max_msg_results 0) = 100%nat) as -> by reflexivity.
    rewrite firstn_all2; [apply sort_desc_perm|]. rewrite (Permutation_length (sort_desc_perm ms)). exact H.
  - intros m Hm. destruct (L m Hm) as [D S]. rewrite D. cbn.
    destruct (0 <=? Topic.m_seq m)%Z eqn:E; [reflexivity|]. apply Z.leb_gt in E. lia.
Qed.

(* ------------------------------------------------------------------ *)
(* steps                                                                *)

(* a request of the base model other than a publish: no outcome, lastID unchanged *)
Lemma step_nonpub_lastid st o ost res :
  step st o = (ost, res) -> (forall px, o <> OPub px) ->
  res = None /\ st_lastid (next_state st ost) = st_lastid st.
Proof.
  intros H NP.
  assert (Hopt : forall (r : option state), (forall st', r = Some st' -> frame_ok st st') ->
          st_lastid (next_state st r) = st_lastid st).
  { intros [y|] Hy; cbn [next_state]; [|reflexivity]. destruct (Hy y eq_refl) as (_ & E & _). exact E. }
  destruct o; cbn [step] in H; try (inv H; split; [reflexivity|]).
  - apply Hopt. apply frame_attach.
  - apply Hopt. apply frame_detach.
  - cbn [next_state]. assert (frame_ok st (set_full (rm s (st_full st)) (drop_session st s))) as (_ & E & _) by frame_solve. exact E.
  - apply Hopt. apply frame_unsub.
  - apply Hopt. apply frame_set_want.
  - apply Hopt. apply frame_set_given.
  - apply Hopt. apply frame_evict_op.
  - cbn [next_state]. destruct (is_full st s); reflexivity.
  - reflexivity.
  - exfalso. exact (NP px eq_refl).
Qed.

Definition numbered_c01q (n : nat) (ms : list Topic.msgrow) : Prop :=
  map Topic.m_seq ms = map Z.of_nat (seq 1 n) /\ (forall m, In m ms -> Topic.m_delid m = 0%Z).
(* the stored rows are numbered 1 .. lastID, one row per number *)
Definition qinv (x : qstate) : Prop := exists n, st_lastid (q_st x) = Z.of_nat n /\ numbered_c01q n (q_msgs x).

Lemma qinv_init st : st_lastid st = 0%Z -> qinv (qinit st).
Proof. intros H. exists 0%nat. split; [exact H|]. split; [reflexivity|intros m []]. Qed.

Lemma numbered_live n ms : numbered_c01q n ms -> rows_live ms /\ length ms = n /\ NoDup (map Topic.m_seq ms).
Proof.
  intros [E D]. split; [|split].
  - intros m Hm. split; [exact (D m Hm)|].
    assert (In (Topic.m_seq m) (map Topic.m_seq ms)) as K by (apply in_map; exact Hm).
    rewrite E in K. apply in_map_iff in K. destruct K as (k & <- & _). lia.
  - rewrite <- (map_length Topic.m_seq ms), E, map_length, seq_length. reflexivity.
  - rewrite E. apply FinFun.Injective_map_NoDup; [intros a b; lia|apply seq_NoDup].
Qed.

(* an accepted publish stores the row (acknowledged number, author, content) and makes that number lastID *)
Lemma qstep_pub_accepted x px q a c p st' :
  publish (q_st x) px = (PAccepted q a c p, st') ->
  qstep x (QBase (OPub px)) =
    (Some (mkQ st' (q_msgs x ++ [Topic.mkMsg q (px_author px) (px_content px) 0%Z])), Some (PAccepted q a c p), []) /\
  q = (st_lastid (q_st x) + 1)%Z /\ st_lastid st' = q.
Proof.
  intros H. destruct (overflow_detached (q_st x) px q a c p st' H) as (Q & _ & _ & L & _).
  split; [|split; assumption]. unfold qstep. cbn [step]. rewrite H. reflexivity.
Qed.

(* every other request stores nothing *)
Lemma qstep_stores_nothing x o ox res out :
  qstep x o = (ox, res, out) ->
  (forall px q a c p, o = QBase (OPub px) -> res <> Some (PAccepted q a c p)) ->
  q_msgs (qnext x ox) = q_msgs x /\ st_lastid (q_st (qnext x ox)) = st_lastid (q_st x).
Proof.
  intros H NA. destruct o as [bo|s u name i|s u name a b l]; unfold qstep in H.
  - destruct (step (q_st x) bo) as [ost r] eqn:ES. inv H.
    assert (stored_c01q (q_msgs x) bo res = q_msgs x) as SM.
    { unfold stored_c01q. destruct bo; try reflexivity. destruct res as [[| | |q a c p]|]; try reflexivity.
      exfalso. exact (NA px q a c p eq_refl eq_refl). }
    destruct bo; try (destruct (step_nonpub_lastid _ _ _ _ ES) as [_ L]; [intros px E; discriminate|];
                      destruct ost as [st'|]; cbn [option_map qnext q_msgs q_st next_state] in *; rewrite ?SM; split; auto).
    cbn [step] in ES. destruct (publish (q_st x) px) as [r st'] eqn:EP. inv ES. cbn [option_map qnext q_msgs q_st]. rewrite SM.
    split; [reflexivity|]. destruct (accepts (q_st x) px) eqn:EA.
    + rewrite (publish_accepted _ _ EA) in EP. inv EP. exfalso. eapply NA; reflexivity.
    + destruct (publish_refused _ _ EA) as [R _]. rewrite EP in R. cbn in R. now subst.
  - destruct (has_key s (st_sess (q_st x))); inv H; split; reflexivity.
  - destruct (has_key s (st_sess (q_st x))); inv H; split; reflexivity.
Qed.

Lemma qstep_inv x o : qinv x -> qinv (qnext x (fst (fst (qstep x o)))).
Proof.
  intros (n & L & E & D).
  destruct (qstep x o) as [[ox res] out] eqn:H. cbn [fst].
  assert ((exists px q a c p, o = QBase (OPub px) /\ res = Some (PAccepted q a c p)) \/
          (forall px q a c p, o = QBase (OPub px) -> res <> Some (PAccepted q a c p))) as [(px & q & a & c & p & -> & ->)|NA].
  { destruct o as [[]|?|?]; try (right; intros; discriminate).
    destruct res as [[| | |q a c p]|]; try (right; intros; discriminate). left. repeat eexists. }
  - unfold qstep in H. cbn [step] in H. destruct (publish (q_st x) px) as [r st'] eqn:EP. inv H.
    destruct (qstep_pub_accepted x px q a c p st' EP) as (_ & Q & L').
    cbn [option_map qnext]. exists (S n). cbn [q_st q_msgs stored_c01q]. split; [lia|]. split.
    + rewrite map_app, E, seq_S, map_app. cbn [map Topic.m_seq]. f_equal. f_equal. lia.
    + intros m Hm. apply in_app_or in Hm. destruct Hm as [Hm|[<-|[]]]; [exact (D m Hm)|reflexivity].
  - destruct (qstep_stores_nothing x o ox res out H NA) as [M L']. exists n. rewrite M, L'. repeat split; assumption.
Qed.

Lemma qrun_inv ops : forall x, qinv x -> qinv (fst (qrun x ops)).
Proof.
  induction ops as [|o r IH]; intros x I; cbn [qrun fst]; [exact I|].
  pose proof (qstep_inv x o I) as I1. destruct (qstep x o) as [[ox res] out]. cbn [fst] in I1.
  specialize (IH _ I1). destruct (qrun (qnext x ox) r) as [x2 outs]. exact IH.
Qed.

(* stored rows are never changed or removed: the log only grows *)
Lemma qstep_prefix x o : exists tl, q_msgs (qnext x (fst (fst (qstep x o)))) = q_msgs x ++ tl.
Proof.
  destruct o as [bo|s u name i|s u name a b l]; unfold qstep.
  - destruct (step (q_st x) bo) as [ost res]. cbn [fst]. destruct ost as [st'|]; cbn [option_map qnext q_msgs]; [|exists []; now rewrite app_nil_r].
    unfold stored_c01q. destruct bo; try (exists []; now rewrite app_nil_r).
    destruct res as [[| | |q a c p]|]; try (exists []; now rewrite app_nil_r). eexists. reflexivity.
  - destruct (has_key s (st_sess (q_st x))); cbn [fst qnext]; exists []; now rewrite app_nil_r.
  - destruct (has_key s (st_sess (q_st x))); cbn [fst qnext]; exists []; now rewrite app_nil_r.
Qed.

Lemma qrun_prefix ops : forall x, exists tl, q_msgs (fst (qrun x ops)) = q_msgs x ++ tl.
Proof.
  induction ops as [|o r IH]; intros x; cbn [qrun fst]; [exists []; now rewrite app_nil_r|].
  destruct (qstep_prefix x o) as [t1 E1]. destruct (qstep x o) as [[ox res] out]. cbn [fst] in E1.
  destruct (IH (qnext x ox)) as [t2 E2]. destruct (qrun (qnext x ox) r) as [x2 outs]. cbn [fst] in *.
  exists (t1 ++ t2). rewrite E2, E1, app_assoc. reflexivity.
Qed.

(* non-vacuity: a channel-enabled group; owner 1 attached as grpXXX, reader 3 attached as chnXXX; two publishes;
   the reader's description (ims not before the last update) shows 2, his history shows rows 2 and 1 without author *)
Definition wq_st : state :=
  mkState KChn 1 47 [(1, mkPud 255 255 false false 0 1%Z); (3, mkPud 11 11 false true 0 1%Z)]
          [(1, mkPsd 1 false); (3, mkPsd 3 true)] 0%Z [] [(3, 11)] [].
Definition wq_ops : list qop :=
  [QBase (OPub (mkPx 1 1 1 TGrp false true 101 [])); QBase (OPub (mkPx 1 1 1 TGrp false true 102 []));
   QGetDesc 3 3 TChn TopicImsC01.ImsNotBefore; QGetData 3 3 TChn 0%Z 0%Z 0%Z].
Lemma wq_ok :
  snd (qrun (qinit wq_st) wq_ops) =
  [[]; []; [(3, QDesc true true 2%Z)]; [(3, QData TChn 0 2%Z 102); (3, QData TChn 0 1%Z 101); (3, QCtrl 208%Z)]].
Proof. vm_compute. reflexivity. Qed.
