(* Stateful layer of the tag rules (C19): the {set what=tags} / {get what=tags}
   handlers of 'me' and group topics, creation of group topics and accounts with
   tags, and the server-side tag changes made by authenticators / validators.

     server/topic.go      replyGetTags (2777-2804), replySetTags (2807-2865)
     server/init_topic.go initTopicMe 154 (t.tags = user.Tags), initTopicNewGrp
                          573-583 (tags of a new topic), initTopicGrp 647
     server/user.go       replyCreateUser 71-81 (tags of a new account), 199
                          addCreds -> store.Users.UpdateTags (tags added by the
                          authenticator's AddRecord)
     server/session.go    Session.set 1148-1168 (routing of {set tags})
     store contract       UserUpdate / TopicUpdate with "Tags" replace the row's
                          tags; UserUpdateTags adds the missing ones, removes,
                          and returns the tags ordered (db/mysql/adapter.go 1303)

   A tag holder is a 'me' topic (stored in the user's row) or a group topic
   (stored in the topic's row).  Its state is the stored list and the list
   cached by the loaded topic (None = the topic is not loaded; it is loaded on
   demand from the row).  Slices are immutable lists here; the two places where
   the Go code changes a caller's slice in place and the change is kept are
   written out: stringSliceDelta sorts BOTH its arguments in place
   (sort.Strings(rold); sort.Strings(rnew)), and its first argument is the cached
   t.tags itself.  filterRestrictedTags / restrictedTagsEqual work on fresh
   slices and leave their arguments alone (checked on the Go side by comparing
   the arguments before and after the call).

   Configuration = globals.immutableTagNS and globals.maxTagCount.  Definitions
   only. *)
From Coq Require Import NArith List Bool Arith.
Require Import Tinode.Pure.Query Tinode.Pure.Tags.
Import ListNotations.
Open Scope N_scope.

Inductive kind := KMe | KGrp.

Record holder := mkH {
  h_kind : kind;
  h_owner : N;                       (* the user of 'me' / the owner of the group topic *)
  h_store : list tag;                (* users.tags / topics.tags *)
  h_cache : option (list tag)        (* Topic.tags of the loaded topic *)
}.

(* association list, first match wins (an update is put in front) *)
Definition world := list (N * holder).

Fixpoint lookup (h : N) (w : world) : option holder :=
  match w with
  | [] => None
  | (k, v) :: t => if k =? h then Some v else lookup h t
  end.
Definition put (h : N) (v : holder) (w : world) : world := (h, v) :: w.

Record cfg := mkCfg {
  c_ns : list tag;                   (* globals.immutableTagNS *)
  c_max : nat                        (* globals.maxTagCount *)
}.

(* fail = the store write of this request fails (fault plan) *)
Inductive req :=
| SetTags (h who : N) (fail : bool) (tags : option (list tag))
| GetTags (h who : N)
| Unload (h : N)
| NewGrp (h who : N) (tags : option (list tag))
| NewUser (h : N) (tags : option (list tag)) (auth : list tag)
| SrvTags (h : N) (add remove : list tag).

Inductive resp :=
| RCtrl (code : N) (added removed : nat)
| RTags (tags : list tag)
| RNone.

Definition content (r : option (list tag)) : list tag := match r with None => [] | Some l => l end.

(* what the loaded topic holds: initTopicMe / initTopicGrp copy the row's tags *)
Definition eff (hd : holder) : list tag :=
  match h_cache hd with Some c => c | None => h_store hd end.
Definition set_cache (hd : holder) (c : list tag) : holder :=
  mkH (h_kind hd) (h_owner hd) (h_store hd) (Some c).
Definition load (hd : holder) : holder := set_cache hd (eff hd).

Definition is_grp (hd : holder) : bool := match h_kind hd with KGrp => true | KMe => false end.

(* the two argument slices of stringSliceDelta after the call *)
Definition delta_args_after (old new : list tag) : list tag * list tag :=
  match old, new with
  | [], _ => (old, new)
  | _, [] => (old, new)
  | _, _ => (sort_strings old, sort_strings new)
  end.

(* UserUpdateTags(uid, add, remove, nil): insert the tags not yet present, delete, return all ordered *)
Fixpoint add_missing (add cur : list tag) : list tag :=
  match add with
  | [] => cur
  | t :: rest => add_missing rest (if mem t cur then cur else cur ++ [t])
  end.
Definition update_tags (cur add remove : list tag) : list tag :=
  sort_strings (filter (fun t => negb (mem t remove)) (add_missing add cur)).

Section TagState.
  Variable lower : N -> N.
  Variable is_letter : N -> bool.
  Variable is_digit : N -> bool.
  Variable is_number : N -> bool.
  Variable c : cfg.

  Notation normalize := (normalize_tags lower is_letter is_digit (c_max c)).
  Notation requal := (restricted_tags_equal is_letter is_number).

  (* replyGetTags on a loaded topic whose t.tags is cache *)
  Definition get_core (grp : bool) (owner : N) (cache : list tag) (who : N) : resp :=
    if grp && negb (owner =? who) then RCtrl 403 0 0
    else match cache with
         | [] => RCtrl 204 0 0
         | l => RTags l
         end.
  Definition get_tags (hd : holder) (who : N) : holder * resp :=
    (load hd, get_core (is_grp hd) (h_owner hd) (eff hd) who).

  (* replySetTags on a loaded topic whose row holds store and whose t.tags is cache:
     (row, t.tags, reply) afterwards *)
  Definition set_core (grp : bool) (owner : N) (store cache : list tag) (who : N) (fail : bool)
             (tags : option (list tag)) : list tag * list tag * resp :=
    if grp && negb (owner =? who) then (store, cache, RCtrl 403 0 0)
    else match normalize tags with
         | None => (store, cache, RCtrl 304 0 0)
         | Some tags =>
           if negb (requal cache tags (c_ns c)) then (store, cache, RCtrl 403 0 0)
           else
             let '(added, removed, _) := string_slice_delta cache tags in
             let '(cache1, tags1) := delta_args_after cache tags in
             if is_nil added && is_nil removed then (store, cache1, RCtrl 304 0 0)
             else if fail then (store, cache1, RCtrl 500 0 0)
             else (tags1, tags1, RCtrl 200 (length added) (length removed))
         end.
  Definition set_tags (hd : holder) (who : N) (fail : bool) (tags : option (list tag)) : holder * resp :=
    let '(s, c1, a) := set_core (is_grp hd) (h_owner hd) (h_store hd) (eff hd) who fail tags in
    (mkH (h_kind hd) (h_owner hd) s (Some c1), a).

  (* initTopicNewGrp: the tags of {sub topic="new" set.tags}; the topic starts loaded *)
  Definition new_grp (who : N) (tags : option (list tag)) : option holder * resp :=
    let tags := content (normalize tags) in
    if negb (is_nil tags) && negb (requal tags [] (c_ns c)) then (None, RCtrl 403 0 0)
    else (Some (mkH KGrp who tags (Some tags)), RCtrl 200 0 0).

  (* replyCreateUser: the tags of {acc user="new" tags}; auth = the tags which the
     authenticator's AddRecord appends (rec.Tags), saved by addCreds through UpdateTags *)
  Definition new_user (h : N) (tags : option (list tag)) (auth : list tag) : option holder * resp :=
    match normalize tags with
    | Some tags =>
      if negb (requal tags [] (c_ns c)) then (None, RCtrl 403 0 0)
      else
        let rec_tags := tags ++ auth in
        (Some (mkH KMe h (match rec_tags with [] => tags | _ => update_tags tags rec_tags [] end) None), RCtrl 201 0 0)
    | None =>
      (Some (mkH KMe h (match auth with [] => [] | _ => update_tags [] auth [] end) None), RCtrl 201 0 0)
    end.

  Definition step (w : world) (r : req) : world * resp :=
    match r with
    | SetTags h who fail tags =>
      match lookup h w with
      | Some hd => let '(hd', a) := set_tags hd who fail tags in (put h hd' w, a)
      | None => (w, RNone)
      end
    | GetTags h who =>
      match lookup h w with
      | Some hd => let '(hd', a) := get_tags hd who in (put h hd' w, a)
      | None => (w, RNone)
      end
    | Unload h =>
      match lookup h w with
      | Some hd => (put h (mkH (h_kind hd) (h_owner hd) (h_store hd) None) w, RNone)
      | None => (w, RNone)
      end
    | NewGrp h who tags =>
      match lookup h w with
      | Some _ => (w, RNone)
      | None => match new_grp who tags with
                | (Some hd, a) => (put h hd w, a)
                | (None, a) => (w, a)
                end
      end
    | NewUser h tags auth =>
      match lookup h w with
      | Some _ => (w, RNone)
      | None => match new_user h tags auth with
                | (Some hd, a) => (put h hd w, a)
                | (None, a) => (w, a)
                end
      end
    | SrvTags h add remove =>
      (* a credential is confirmed / removed while the 'me' topic is not loaded *)
      match lookup h w with
      | Some hd => if is_grp hd then (w, RNone)
                   else (put h (mkH KMe (h_owner hd) (update_tags (h_store hd) add remove) None) w, RNone)
      | None => (w, RNone)
      end
    end.

  Fixpoint run (w : world) (rs : list req) : world * list resp :=
    match rs with
    | [] => (w, [])
    | r :: rest => let '(w1, a) := step w r in
                   let '(w2, l) := run w1 rest in (w2, a :: l)
    end.
End TagState.
