(* C10, slow consumers: the presence model Sys/Pres.v extended with STUCK sessions - connections that stopped
   reading, whose outbound queue (Session.send) is full so that Session.queueOut fails (session.go:345-351).

   broadcastToSessions (topic.go:1252-1338) collects every session whose queueOut failed and, when the loop
   over t.sessions is done, detaches each of them:
       for _, sess := range dropSessions { t.unregisterSession(&ClientComMessage{sess: sess, init: false}) }
   unregisterSession -> handleLeaveRequest with init=false (topic.go:687-827): remSession, sess.delSub,
   perUser[uid].online-- (unless sess.background), and in a group `presSubsOnline("off")` when the counter
   reached 0.  No reply (init=false).  This is `drop_c10x` = Pres.leave with the session's CURRENT background
   flag (cleanUp is not involved: the flag is not cleared).

   Callers of broadcastToSessions in a master topic, and where the fan-out sits in the handler:
     handleServerMsg / handlePresence (topic.go:615,1248)  last statement         -> Pres.Deliver
     handleNoteBroadcast (topic.go:1234)                   last statement, AFTER `t.perUser[asUid] = pud` (1214)
                                                                                   -> Pres.Note
     saveAndBroadcastMessage (topic.go:1047)               after `t.perUser[asUid] = pud` (1011) and after
                                                           presSubsOffline("msg") (1040); only the push follows
                                                                                   -> Pres.Pub ({data}: readers)
     terminateCallInProgress (calls.go:423)                video calls: not modelled (C15)
   So in every handler the drops come after all the handler's own writes of perUser and after everything it
   puts in flight: `xstep_c10x` runs the atomic handler of Pres.step, removes the frames addressed to stuck
   sessions (they were never queued) and then applies the drops, in the order of the frames.
   `xstep_late_c10x` is the SAME with the handler's write-back `t.perUser[asUid] = pud` of {note} moved after
   the fan-out (the stale copy, taken before the drops, overwrites the decrement): the regression this file is
   about; PresStuckC10Proofs.stale_writeback_breaks_online_count refutes the invariant for it.

   Requests of a stuck session are not sent (its client is stuck as well): Skipped, except the disconnect.
   Definitions only; lemmas in Sys/PresStuckC10Proofs.v. *)
From Coq Require Import List NArith ZArith Bool.
From Tinode Require Import Sys.Pres.
Import ListNotations.
Open Scope N_scope.

(* state of Pres.v + the ids of the stuck sessions *)
Definition xstate_c10x := (state * list N)%type.
Definition xinit_c10x : xstate_c10x := (init, []).

Definition stuck_c10x (k : list N) (sid : N) : bool := existsb (N.eqb sid) k.

(* the slow-consumer drop of one session from one topic (unregisterSession, init=false) *)
Definition drop_c10x (s : state) (sid u : N) (t : tname) : state :=
  if sess_on s sid t then leave s sid u t (sess_bkg s sid) else s.

Definition frame_stuck_c10x (k : list N) (o : out) : bool :=
  match o with Frame sid _ _ _ _ => stuck_c10x k sid | _ => false end.

(* the `for _, sess := range dropSessions` loop: one drop per frame that could not be queued *)
Definition drops_c10x (k : list N) (s : state) (outs : list out) : state :=
  fold_left (fun acc o =>
    match o with
    | Frame sid user top _ _ => if stuck_c10x k sid then drop_c10x acc sid user top else acc
    | _ => acc
    end) outs s.

(* the {data} branch of broadcastToSessions (topic.go:1303-1306) for a message without noecho: every attached
   session of a reader.  Only used to find the sessions to drop: {data} frames are C02's, not printed here. *)
Definition data_rcpt_c10x (s : state) (t : tname) : list out :=
  match get_top s t with
  | Some x => flat_map (fun e => let '(sid, uid) := e in
                                 if is_reader (p_mode (get_pud x uid)) then [Frame sid uid t t WOther] else [])
                       (t_sess x)
  | None => []
  end.

Definition accepted_c10x (outs : list out) : bool :=
  existsb (fun o => match o with Ctrl _ c => (c =? 202)%Z | _ => false end) outs.

(* the session a client request comes from *)
Definition actor_c10x (o : op) : option N :=
  match o with
  | New sid _ _ _ | Att sid _ _ _ | Det sid _ | Unsub sid _ | Fg sid | Want sid _ _ | Given sid _ _ _
  | Evict sid _ _ | Pub sid _ | Note sid _ _ _ _ | DelMsg sid _ _ => Some sid
  | _ => None
  end.

(* sessions the fan-out of this handler could not reach, as pseudo frames *)
Definition unreached_c10x (s1 : state) (o : op) (outs : list out) : list out :=
  match o with
  | Pub sid r =>
    match sess_user s1 sid with
    | Some u => if accepted_c10x outs then data_rcpt_c10x s1 (resolve u r) else []
    | None => []
    end
  | _ => outs
  end.

Inductive xop_c10x :=
| XClog (sid : N)      (* the connection stops reading, its queue is full *)
| XUnclog (sid : N)    (* the client reads again *)
| XOp (o : op).

Definition xstep_c10x (xs : xstate_c10x) (o : xop_c10x) : xstate_c10x * list out :=
  let '(s, k) := xs in
  match o with
  | XClog sid => if stuck_c10x k sid || negb (sess_count_me s sid) then (xs, [Skipped]) else ((s, sid :: k), [])
  | XUnclog sid => if stuck_c10x k sid then ((s, filter (fun x => negb (x =? sid)) k), []) else (xs, [Skipped])
  | XOp (Disc sid) =>
    let '(s1, outs) := step s (Disc sid) in ((s1, filter (fun x => negb (x =? sid)) k), outs)
  | XOp o =>
    if (match actor_c10x o with Some sid => stuck_c10x k sid | None => false end) then (xs, [Skipped]) else
    let '(s1, outs) := step s o in
    ((drops_c10x k s1 (unreached_c10x s1 o outs), k), filter (fun f => negb (frame_stuck_c10x k f)) outs)
  end.

Fixpoint xrun_c10x (xs : xstate_c10x) (h : list xop_c10x) : xstate_c10x * list out :=
  match h with
  | [] => (xs, [])
  | o :: r => let '(x1, o1) := xstep_c10x xs o in let '(x2, o2) := xrun_c10x x1 r in (x2, o1 ++ o2)
  end.

Fixpoint xdrain_c10x (fuel : nat) (xs : xstate_c10x) : xstate_c10x * list out :=
  match fuel with
  | O => (xs, [])
  | S f =>
    match s_net (fst xs) with
    | [] => (xs, [])
    | _ => let '(x1, o1) := xstep_c10x xs (XOp (Deliver 0)) in let '(x2, o2) := xdrain_c10x f x1 in (x2, o1 ++ o2)
    end
  end.

(* ---------------------------------------------------------------- the regression: stale write-back *)

(* handleNoteBroadcast with `t.perUser[asUid] = pud` moved behind broadcastToSessions: `pud` is the copy taken at
   the top of the handler (topic.go:1135) with the new marks; whatever the fan-out did to perUser[asUid] in
   between (the drop of a stuck session of the SAME user: online--) is overwritten.  [s1] is the state after
   the handler's own updates (which is when the correct code writes the copy), [s2] the state after the drops. *)
Definition stale_writeback_c10x (s1 s2 : state) (t : tname) (u : N) : state :=
  match get_top s1 t, get_top s2 t with
  | Some x1, Some x2 => if found t x1 u then put_top t (set_pud u (get_pud x1 u) x2) s2 else s2
  | _, _ => s2
  end.

Definition xstep_late_c10x (xs : xstate_c10x) (o : xop_c10x) : xstate_c10x * list out :=
  let '(s, k) := xs in
  match o with
  | XOp (Note sid u r w seq) =>
    if stuck_c10x k sid then (xs, [Skipped]) else
    let '(s1, outs) := step s (Note sid u r w seq) in
    let s2 := drops_c10x k s1 outs in
    (* the write-back is under `if seq > 0`: reached exactly when the note moved a mark (read/recv accepted) *)
    let t := resolve u r in
    let wrote := match get_top s t, get_top s1 t with
                 | Some x, Some x1 => negb ((p_read (get_pud x u) =? p_read (get_pud x1 u))%Z &&
                                            (p_recv (get_pud x u) =? p_recv (get_pud x1 u))%Z)
                 | _, _ => false
                 end in
    ((if wrote then stale_writeback_c10x s1 s2 t u else s2, k),
     filter (fun f => negb (frame_stuck_c10x k f)) outs)
  | _ => xstep_c10x xs o
  end.
