(* C08: an acknowledged (2xx) mutating request is in the store: the state after it is coherent,
   for every fault plan - the fault cannot have hit a store call the acknowledgement depends on. *)
From Coq Require Import ZArith NArith List Bool Lia.
From Tinode Require Import Base.Util Pure.Acs Sys.Topic Sys.TopicTac Sys.TopicFrame Sys.TopicNum Sys.TopicNumThm
  Sys.TopicCohC08 Sys.TopicCohC08Proofs Sys.TopicCohC08Step Sys.TopicCohC08Run.
Import ListNotations.
Open Scope Z_scope.

Lemma not_ok_single sid code : ~ (200 <= code < 300) -> ~ ok_reply [(sid, Ctrl code [])] sid.
Proof.
  intros NC [[c [ps [[H|[]] R]]]|[u [w [g [H|[]]]]]]; [inv H; lia|discriminate].
Qed.

Lemma publish_ok_calls f s c n sid u content noecho :
  ok_reply (h_out (publish f s c n sid u content noecho)) sid ->
  fails f (S n) = false /\ fails f (S (S n)) = false.
Proof.
  unfold publish, call.
  destruct (negb (is_writer (pud_mode (get_pud c u)))); cbn [h_out]; [intros H; exfalso; eapply not_ok_single; [|exact H]; lia|].
  destruct (fails f (S n)); cbn [negb h_out]; [intros H; exfalso; eapply not_ok_single; [|exact H]; lia|].
  destruct (fails f (S (S n))); cbn [negb h_out]; [intros H; exfalso; eapply not_ok_single; [|exact H]; lia|].
  intros _. split; reflexivity.
Qed.

Lemma del_msg_ok_calls dr f s c n sid u req hard :
  ok_reply (h_out (del_msg dr f s c n sid u req hard)) sid ->
  fails f (S n) = false /\ fails f (S (S n)) = false /\ fails f (S (S (S n))) = false.
Proof.
  unfold del_msg, call. cbv zeta.
  destruct (negb (hard && is_deleter (user_mode c u)) && negb (is_reader (user_mode c u))); cbn [h_out];
    [intros H; exfalso; eapply not_ok_single; [|exact H]; lia|].
  destruct (dr (c_lastid c) req); cbn [h_out]; [|intros H; exfalso; eapply not_ok_single; [|exact H]; lia].
  destruct (fails f (S n)); cbn [negb h_out]; [intros H; exfalso; eapply not_ok_single; [|exact H]; lia|].
  destruct (fails f (S (S n))); cbn [negb h_out]; [intros H; exfalso; eapply not_ok_single; [|exact H]; lia|].
  destruct (fails f (S (S (S n)))); cbn [negb h_out]; [intros H; exfalso; eapply not_ok_single; [|exact H]; lia|].
  intros _. repeat split; reflexivity.
Qed.

Section Ack.
Variable dr : Z -> list (Z * Z) -> option (list (Z * Z)).
Variable nr : list (Z * Z) -> list (Z * Z).
Variable sm : sessmap.

(* what is left of the fault hypothesis once the request is known to be acknowledged *)
Definition ack_fault_ok (f : fault) (x : state) (o : op) : Prop :=
  match o with
  | OPub _ _ _ => fails f 3 = false      (* the store error that messagesMapper.Save ignores: finding #6 *)
  | OSub sid _ _ | OSetSub sid _ _ =>
    f = NoFault \/ match alookup (sess_uid sm sid) (c_users (cur_cache x)) with Some p => ~ pending p | None => True end
  | _ => True
  end.

Theorem step_ack f x o :
  inv x -> inv_num x -> known sm o ->
  ~ trig_note_read sm x o -> ~ trig_readless_pub sm x o -> ~ trig_offline_setsub x o ->
  ack_fault_ok f x o ->
  ok_reply (snd (step dr nr sm f x o)) (op_sid o) ->
  inv (fst (step dr nr sm f x o)).
Proof.
  intros IV IN KN T1 T2 T3 AF OK. apply step_inv; try assumption.
  split; [exact KN|]. split; [exact T1|]. split; [exact T2|]. split; [exact T3|].
  destruct o; cbn [fault_ok ack_fault_ok op_sid] in *; try exact I; try exact AF.
  - (* OPub *)
    unfold step in OK. destruct (ca x) as [c|]; cbn -[publish] in OK.
    + destruct (attached c sid); cbn -[publish] in OK.
      * destruct (publish_ok_calls _ _ _ _ _ _ _ _ OK) as [N1 N2]. left. repeat split; assumption.
      * exfalso. eapply not_ok_single; [|exact OK]. lia.
    + exfalso. eapply not_ok_single; [|exact OK]. lia.
  - (* ODelMsg *)
    unfold step in OK. destruct (ca x) as [c|]; cbn -[del_msg] in OK.
    + destruct (attached c sid); cbn -[del_msg] in OK.
      * left. exact (del_msg_ok_calls _ _ _ _ _ _ _ _ _ OK).
      * exfalso. eapply not_ok_single; [|exact OK]. lia.
    + exfalso. eapply not_ok_single; [|exact OK]. lia.
Qed.
End Ack.
