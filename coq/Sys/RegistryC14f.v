(* C14, round s14f: the session registry (server/sessionstore.go) and the per-user online
   counters of one topic (server/topic.go, attach / handleLeaveRequest).  Definitions only.

   PART A - SessionStore.  A session object is identified by its sid (store.Store.GetUidString():
   unique; the model allocates 0,1,2,...).  `r_heap` = the session objects (fields proto==LPOLL, uid,
   lastTouched), `r_cache` = the keys of ss.sessCache, `r_lru` = ss.lru front first (every element
   holds one *Session; lpTracker = the element of that session), `r_term` = the sessions the store or
   their own connection has TERMINATED: cleanUp(true) of NewSession's `expired` list, stopSession of
   EvictUser, cleanUp(false) of a closing connection (which calls SessionStore.Delete). *)
From Coq Require Import List NArith ZArith Bool.
Import ListNotations.
Local Open Scope N_scope.

Record rsess_c14f := mkRS { rs_sid : N; rs_uid : N; rs_lp : bool; rs_touched : Z }.

Record rstore_c14f := mkRStore {
  r_heap : list rsess_c14f;   (* newest version of an object first *)
  r_cache : list N;
  r_lru : list N;
  r_term : list N;
  r_next : N;
  r_life : Z }.

Definition init_c14f (life : Z) : rstore_c14f := mkRStore [] [] [] [] 0 life.

Fixpoint rfind_c14f (h : list rsess_c14f) (sid : N) : option rsess_c14f :=
  match h with
  | [] => None
  | s :: r => if rs_sid s =? sid then Some s else rfind_c14f r sid
  end.

Definition r_is_lp (h : list rsess_c14f) (sid : N) : bool :=
  match rfind_c14f h sid with Some s => rs_lp s | None => false end.
Definition r_uid_of (h : list rsess_c14f) (sid : N) : N :=
  match rfind_c14f h sid with Some s => rs_uid s | None => 0 end.
Definition r_touched_of (h : list rsess_c14f) (sid : N) : Z :=
  match rfind_c14f h sid with Some s => rs_touched s | None => 0%Z end.

Definition memN (x : N) (l : list N) : bool := existsb (N.eqb x) l.
(* delete(map, key) / list.Remove(elem): no-op when absent *)
Definition rdel (x : N) (l : list N) : list N := filter (fun y => negb (y =? x)) l.
Definition rdel_all (xs : list N) (l : list N) : list N := filter (fun y => negb (memN y xs)) l.

(* the expiry loop of NewSession: for elem := lru.Back(); elem != nil; elem = lru.Back() { if
   sess.lastTouched.Before(expire) { lru.Remove(elem); delete(cache, sess.sid); expired = append(..) }
   else break }: walks the list from its BACK; argument = the list back first; result = (expired in
   order, what stays, back first) *)
Fixpoint expire_back_c14f (h : list rsess_c14f) (expire : Z) (back : list N) : list N * list N :=
  match back with
  | [] => ([], [])
  | sid :: r =>
      if (r_touched_of h sid <? expire)%Z
      then let '(e, k) := expire_back_c14f h expire r in (sid :: e, k)
      else ([], back)
  end.

(* NewSession(conn, ""): conn decides proto; the driver logs the session in as `uid`. Returns the new
   sid and the sessions on which cleanUp(true) is called. *)
Definition new_session_c14f (st : rstore_c14f) (lp : bool) (uid : N) (now : Z) : rstore_c14f * (N * list N) :=
  let sid := r_next st in
  let s := mkRS sid uid lp now in
  let heap := s :: r_heap st in
  let lru1 := if lp then sid :: r_lru st else r_lru st in
  let cache1 := sid :: r_cache st in
  let expire := (now - r_life st)%Z in
  let '(expired, keep) := expire_back_c14f heap expire (rev lru1) in
  (mkRStore heap (rdel_all expired cache1) (rev keep) (expired ++ r_term st) (sid + 1) (r_life st),
   (sid, expired)).

(* Get(sid): found => LPOLL: MoveToFront + lastTouched = now *)
Definition get_c14f (st : rstore_c14f) (sid : N) (now : Z) : rstore_c14f * bool :=
  if memN sid (r_cache st) then
    if r_is_lp (r_heap st) sid then
      (mkRStore (mkRS sid (r_uid_of (r_heap st) sid) true now :: r_heap st) (r_cache st)
                (sid :: rdel sid (r_lru st)) (r_term st) (r_next st) (r_life st), true)
    else (st, true)
  else (st, false).

(* a connection closes: Session.cleanUp(false) -> SessionStore.Delete(s) *)
Definition disconnect_c14f (st : rstore_c14f) (sid : N) : rstore_c14f :=
  if sid <? r_next st then
    mkRStore (r_heap st) (rdel sid (r_cache st))
             (if r_is_lp (r_heap st) sid then rdel sid (r_lru st) else r_lru st)
             (sid :: r_term st) (r_next st) (r_life st)
  else st.

(* EvictUser(uid, skipSid) *)
Definition victim_c14f (h : list rsess_c14f) (uid skip : N) (sid : N) : bool :=
  (r_uid_of h sid =? uid) && negb (sid =? skip).
Definition evict_c14f (st : rstore_c14f) (uid skip : N) : rstore_c14f * list N :=
  let v := filter (victim_c14f (r_heap st) uid skip) (r_cache st) in
  (mkRStore (r_heap st) (filter (fun x => negb (victim_c14f (r_heap st) uid skip x)) (r_cache st))
            (filter (fun x => negb (victim_c14f (r_heap st) uid skip x && r_is_lp (r_heap st) x)) (r_lru st))
            (v ++ r_term st) (r_next st) (r_life st), v).

(* the clock: the session has not been heard of for d more seconds (the driver moves lastTouched back) *)
Definition age_c14f (st : rstore_c14f) (sid : N) (d : Z) : rstore_c14f :=
  match rfind_c14f (r_heap st) sid with
  | Some s => mkRStore (mkRS sid (rs_uid s) (rs_lp s) (rs_touched s - d)%Z :: r_heap st) (r_cache st) (r_lru st)
                       (r_term st) (r_next st) (r_life st)
  | None => st
  end.

Inductive rop_c14f :=
| RNew (lp : bool) (uid : N) (now : Z)
| RGet (sid : N) (now : Z)
| RDisc (sid : N)
| REvict (uid skip : N)
| RAge (sid : N) (d : Z).

Definition rstep_c14f (st : rstore_c14f) (o : rop_c14f) : rstore_c14f :=
  match o with
  | RNew lp uid now => fst (new_session_c14f st lp uid now)
  | RGet sid now => fst (get_c14f st sid now)
  | RDisc sid => disconnect_c14f st sid
  | REvict uid skip => fst (evict_c14f st uid skip)
  | RAge sid d => age_c14f st sid d
  end.

Definition rrun_c14f (st : rstore_c14f) (h : list rop_c14f) : rstore_c14f := fold_left rstep_c14f h st.

(* the registry holds exactly the sessions that were created and not terminated, each once; the LRU
   list exactly the long-polling ones among them, each once *)
Definition reg_exact_c14f (st : rstore_c14f) : Prop :=
  NoDup (r_cache st) /\ NoDup (r_lru st) /\
  (forall x, In x (r_cache st) <-> (x < r_next st /\ ~ In x (r_term st))) /\
  (forall x, In x (r_lru st) <-> (In x (r_cache st) /\ r_is_lp (r_heap st) x = true)).

(* PART B - the online counters of one loaded topic.  t.sessions : *Session -> perSessionData{uid}
   (the user the session is attached AS: for a root session acting on behalf of somebody, that user,
   not Session.uid), t.perUser : uid -> online.  Go map semantics: reading a missing key gives the
   zero record, writing creates the entry. *)
Record otopic_c14f := mkOT { o_sess : list (N * N); (* sid -> pssd.uid *) o_per : list (N * Z) }.

Fixpoint oget (m : list (N * Z)) (u : N) : Z :=
  match m with [] => 0%Z | (k, v) :: r => if k =? u then v else oget r u end.
Fixpoint oset (m : list (N * Z)) (u : N) (v : Z) : list (N * Z) :=
  match m with
  | [] => [(u, v)]
  | (k, w) :: r => if k =? u then (k, v) :: r else (k, w) :: oset r u v
  end.
Fixpoint ofind (m : list (N * N)) (sid : N) : option N :=
  match m with [] => None | (k, v) :: r => if k =? sid then Some v else ofind r sid end.
Definition orem (m : list (N * N)) (sid : N) : list (N * N) := filter (fun p => negb (fst p =? sid)) m.

(* attach (handleSubscription -> addSession + pud.online++ for asUid), foreground session; a session
   already in t.sessions is not added again *)
Definition oattach_c14f (t : otopic_c14f) (sid asuid : N) : otopic_c14f :=
  match ofind (o_sess t) sid with
  | Some _ => t
  | None => mkOT ((sid, asuid) :: o_sess t) (oset (o_per t) asuid (oget (o_per t) asuid + 1)%Z)
  end.

(* handleLeaveRequest without unsub, ordinary (non-proxy) foreground session - explicit {leave},
   unsubAll of cleanUp, slow-consumer eviction all arrive here: pssd := remSession(sess);
   uid = pssd.uid; pud = perUser[uid]; pud.online--; perUser[uid] = pud.  `sess_uid` (Session.uid) is an
   argument because the code has it at hand - and must not use it. *)
Definition oleave_c14f (t : otopic_c14f) (sid sess_uid : N) : otopic_c14f :=
  match ofind (o_sess t) sid with
  | None => t
  | Some uid => mkOT (orem (o_sess t) sid) (oset (o_per t) uid (oget (o_per t) uid - 1)%Z)
  end.

Inductive oop_c14f := OAttach (sid asuid : N) | OLeave (sid sess_uid : N).
Definition ostep_c14f (t : otopic_c14f) (o : oop_c14f) : otopic_c14f :=
  match o with OAttach s a => oattach_c14f t s a | OLeave s u => oleave_c14f t s u end.
Definition orun_c14f (t : otopic_c14f) (h : list oop_c14f) : otopic_c14f := fold_left ostep_c14f h t.

(* topic as loaded: nobody attached, one zero record per subscription row *)
Definition oinit_c14f (members : list N) : otopic_c14f := mkOT [] (map (fun u => (u, 0%Z)) members).

Definition ocount (m : list (N * N)) (u : N) : Z :=
  Z.of_nat (length (filter (fun p => snd p =? u) m)).
