(* Invariants of Sys/Election.v, by induction over ALL executions (any number of
   configured nodes, any interleaving of ticks, deliveries in any order, losses,
   RPC errors and timeouts). *)
From Coq Require Import List Bool Arith Lia.
From Tinode Require Import Sys.Election.
Import ListNotations.

(* ------------------------------------------------------------------ *)
(* counting                                                            *)

Definition count {A} (P : A -> bool) (l : list A) : nat := length (filter P l).

Lemma count_cons {A} (P : A -> bool) x l : count P (x :: l) = (if P x then 1 else 0) + count P l.
Proof. unfold count. cbn. destruct (P x); reflexivity. Qed.

Lemma count_le_length {A} (P : A -> bool) l : count P l <= length l.
Proof. induction l as [|x l IH]; [auto|]. rewrite count_cons. cbn [length]. destruct (P x); lia. Qed.

Lemma count_ext_in {A} (P Q : A -> bool) l : (forall x, In x l -> P x = Q x) -> count P l = count Q l.
Proof.
  induction l as [|x l IH]; intros H; [reflexivity|].
  rewrite !count_cons, (H x) by now left. rewrite IH; auto. intros y Hy. apply H. now right.
Qed.

Lemma count_mono {A} (P Q : A -> bool) l : (forall x, P x = true -> Q x = true) -> count P l <= count Q l.
Proof.
  intros H. induction l as [|x l IH]; [auto|]. rewrite !count_cons.
  destruct (P x) eqn:E; [rewrite (H _ E)|destruct (Q x)]; lia.
Qed.

Lemma count_zero {A} (P : A -> bool) l : (forall x, In x l -> P x = false) -> count P l = 0.
Proof.
  induction l as [|x l IH]; intros H; [reflexivity|].
  rewrite count_cons, (H x) by now left. rewrite IH; auto. intros y Hy. apply H. now right.
Qed.

(* P and Q differ at most at the point m *)
Lemma count_upd_le (P Q : nat -> bool) m l :
  NoDup l -> (forall x, x <> m -> Q x = P x) -> count Q l <= count P l + 1.
Proof.
  intros ND H. induction ND as [|x l Hx ND IH]; [cbn; lia|].
  rewrite !count_cons. destruct (Nat.eq_dec x m) as [->|Ne].
  - rewrite (count_ext_in Q P l).
    + destruct (Q m), (P m); lia.
    + intros y Hy. apply H. intros ->. contradiction.
  - rewrite (H x Ne). lia.
Qed.

Lemma count_upd_true_in (P Q : nat -> bool) m l :
  In m l -> P m = false -> Q m = true -> (forall x, x <> m -> Q x = P x) -> count P l + 1 <= count Q l.
Proof.
  intros Hin Pm Qm H. induction l as [|x l IH]; [destruct Hin|].
  rewrite !count_cons. destruct (Nat.eq_dec x m) as [->|Ne].
  - rewrite Pm, Qm.
    assert (count P l <= count Q l); [|lia].
    clear IH Hin. induction l as [|y l IH]; [auto|]. rewrite !count_cons.
    destruct (Nat.eq_dec y m) as [->|Ne]; [rewrite Pm, Qm|rewrite (H y Ne)]; lia.
  - rewrite (H x Ne). destruct Hin as [->|Hin]; [congruence|]. specialize (IH Hin). lia.
Qed.

Lemma count_upd_false_in (P Q : nat -> bool) m l :
  In m l -> P m = true -> Q m = false -> (forall x, x <> m -> Q x = P x) -> count Q l + 1 <= count P l.
Proof. intros Hin Pm Qm H. apply (count_upd_true_in Q P m l); auto. intros x Hx. symmetry. auto. Qed.

Lemma count_upd_false_le (P Q : nat -> bool) m l :
  Q m = false -> (forall x, x <> m -> Q x = P x) -> count Q l <= count P l.
Proof.
  intros Qm H. apply count_mono. intros x Hx. destruct (Nat.eq_dec x m) as [->|Ne]; [congruence|].
  now rewrite <- (H x Ne).
Qed.

Lemma count_disjoint {A} (P Q : A -> bool) l :
  (forall x, P x = true -> Q x = true -> False) -> count P l + count Q l <= length l.
Proof.
  intros H. induction l as [|x l IH]; [auto|]. rewrite !count_cons. cbn [length].
  destruct (P x) eqn:Px, (Q x) eqn:Qx; try lia. exfalso. eauto.
Qed.

Lemma mem_In n l : mem n l = true <-> In n l.
Proof.
  unfold mem. rewrite existsb_exists. split.
  - intros (x & Hx & E). apply Nat.eqb_eq in E. now subst.
  - intros H. exists n. split; [assumption|apply Nat.eqb_refl].
Qed.

Lemma peers_In cfg n p : In p (peers cfg n) <-> In p (cfg_nodes cfg) /\ p <> n.
Proof.
  unfold peers. rewrite filter_In, negb_true_iff, Nat.eqb_neq. tauto.
Qed.

Lemma peers_length cfg n :
  NoDup (cfg_nodes cfg) -> In n (cfg_nodes cfg) -> S (node_count cfg n) = length (cfg_nodes cfg).
Proof.
  unfold node_count, peers. induction (cfg_nodes cfg) as [|x l IH]; intros ND Hin; [destruct Hin|].
  inversion ND as [|? ? Hx ND']; subst. cbn [filter length].
  destruct (Nat.eqb_spec x n) as [->|Ne]; cbn [negb].
  - f_equal. clear IH Hin ND. induction l as [|y l IH]; [reflexivity|].
    cbn [filter length]. inversion ND'; subst.
    destruct (Nat.eqb_spec y n) as [->|Ne]; cbn [negb length].
    + exfalso. apply Hx. now left.
    + f_equal. apply IH; auto. intros H. apply Hx. now right.
  - cbn [length]. f_equal. apply IH; auto. destruct Hin; [congruence|assumption].
Qed.

Lemma div2_majority n : n < 2 * (Nat.div2 n + 1).
Proof. pose proof (Nat.div2_odd n). destruct (Nat.odd n); cbn [Nat.b2n] in *; lia. Qed.

(* ------------------------------------------------------------------ *)

Definition vote_is (o : option node) (c : node) : bool :=
  match o with Some x => x =? c | None => false end.
Definition granted_flying (r : rpc) : bool :=
  match r with RepFlying (Granted _) => true | _ => false end.

Section Inv.
  Variable cfg : config.
  Hypothesis nodup : NoDup (cfg_nodes cfg).

  (* number of configured nodes that have given their vote of term t to c *)
  Definition V (s : state) (c : node) (t : nat) : nat :=
    count (fun m => vote_is (votes s t m) c) (cfg_nodes cfg).
  (* number of yes-replies to c's election of term t still in flight *)
  Definition F (s : state) (c : node) (t : nat) : nat :=
    count (fun p => granted_flying (rpcs s c t p)) (peers cfg c).

  Record inv (s : state) : Prop := mkInv {
    inv_vote_term : forall t m c, votes s t m = Some c -> t <= term (loc s m);
    inv_electing : forall c vc i, electing (loc s c) = Some (vc, i) ->
      In c (cfg_nodes cfg) /\ vc + F s c (term (loc s c)) <= V s c (term (loc s c));
    inv_leader : forall c, leader (loc s c) = Some c ->
      In c (cfg_nodes cfg) /\ expect_votes cfg c <= V s c (term (loc s c));
    inv_hnet : forall h, In h (hnet s) -> h_to h <> h_leader h;
    inv_rpc_peer : forall c t p, rpcs s c t p <> NoCall -> In p (peers cfg c)
  }.

  Lemma peers_nodup c : NoDup (peers cfg c).
  Proof. unfold peers. now apply NoDup_filter. Qed.

  Lemma inv_init : inv (init cfg).
  Proof.
    constructor; cbn; try discriminate; try contradiction; intros; congruence.
  Qed.

  (* ---- how V and F react to the primitive updates ---- *)

  Lemma V_set_vote_other s t m c c' t' :
    votes s t m = None -> ~ (c' = c /\ t' = t) -> V (set_vote s t m c) c' t' = V s c' t'.
  Proof.
    intros Hn Hne. unfold V. apply count_ext_in. intros x _. cbn.
    destruct (Nat.eqb_spec t' t) as [->|]; cbn; [|reflexivity].
    destruct (Nat.eqb_spec x m) as [->|]; cbn; [|reflexivity].
    rewrite Hn. cbn. apply Nat.eqb_neq. intros ->. apply Hne. auto.
  Qed.

  Lemma V_set_vote_same s t m c :
    votes s t m = None -> In m (cfg_nodes cfg) -> V s c t + 1 <= V (set_vote s t m c) c t.
  Proof.
    intros Hn Hin. unfold V. apply (count_upd_true_in _ _ m); auto.
    - now rewrite Hn.
    - cbn [votes set_vote]. rewrite !Nat.eqb_refl. cbn. apply Nat.eqb_refl.
    - intros x Hx. cbn [votes set_vote]. rewrite Nat.eqb_refl. apply Nat.eqb_neq in Hx. now rewrite Hx.
  Qed.

  Lemma V_set_vote_ge s t m c c' t' :
    votes s t m = None -> V s c' t' <= V (set_vote s t m c) c' t'.
  Proof.
    intros Hn. unfold V. apply count_mono. intros x. cbn.
    destruct ((t' =? t) && (x =? m)) eqn:E; [|auto].
    apply andb_true_iff in E as [E1 E2]. apply Nat.eqb_eq in E1, E2. subst. now rewrite Hn.
  Qed.

  Lemma F_set_rpc_other s c t m r c' t' :
    ~ (c' = c /\ t' = t) -> F (set_rpc s c t m r) c' t' = F s c' t'.
  Proof.
    intros Hne. unfold F. apply count_ext_in. intros x _. cbn.
    destruct (Nat.eqb_spec c' c) as [->|]; cbn; [|reflexivity].
    destruct (Nat.eqb_spec t' t) as [->|]; cbn; [|reflexivity].
    exfalso. auto.
  Qed.

  Lemma set_rpc_at s c t m r x :
    rpcs (set_rpc s c t m r) c t x = if x =? m then r else rpcs s c t x.
  Proof. cbn. now rewrite !Nat.eqb_refl. Qed.

  Lemma F_set_rpc_le1 s c t m r : F (set_rpc s c t m r) c t <= F s c t + 1.
  Proof.
    unfold F. apply (count_upd_le _ _ m); [apply peers_nodup|].
    intros x Hx. rewrite set_rpc_at. apply Nat.eqb_neq in Hx. now rewrite Hx.
  Qed.

  Lemma F_set_rpc_nongranted s c t m r :
    granted_flying r = false -> F (set_rpc s c t m r) c t <= F s c t.
  Proof.
    intros Hr. unfold F. apply (count_upd_false_le _ _ m).
    - rewrite set_rpc_at, Nat.eqb_refl. exact Hr.
    - intros x Hx. rewrite set_rpc_at. apply Nat.eqb_neq in Hx. now rewrite Hx.
  Qed.

  Lemma F_set_rpc_consume s c t m r :
    granted_flying (rpcs s c t m) = true -> In m (peers cfg c) -> granted_flying r = false ->
    F (set_rpc s c t m r) c t + 1 <= F s c t.
  Proof.
    intros Hg Hin Hr. unfold F. apply (count_upd_false_in _ _ m); auto.
    - rewrite set_rpc_at, Nat.eqb_refl. exact Hr.
    - intros x Hx. rewrite set_rpc_at. apply Nat.eqb_neq in Hx. now rewrite Hx.
  Qed.

  Lemma F_set_rpc_any s c t m r c' t' :
    granted_flying r = false -> F (set_rpc s c t m r) c' t' <= F s c' t'.
  Proof.
    intros Hr. destruct (Nat.eq_dec c' c) as [->|]; [destruct (Nat.eq_dec t' t) as [->|]|].
    - now apply F_set_rpc_nongranted.
    - rewrite F_set_rpc_other; [lia|tauto].
    - rewrite F_set_rpc_other; [lia|tauto].
  Qed.

  (* ---- loop_or_exit ---- *)

  Lemma loop_or_exit_spec n l vc i :
    let l' := loop_or_exit cfg n l vc i in
    term l' = term l /\
    ((electing l' = Some (vc, i) /\ leader l' = leader l) \/
     (electing l' = None /\ leader l' = Some n /\ expect_votes cfg n <= vc) \/
     (electing l' = None /\ leader l' = leader l)).
  Proof.
    unfold loop_or_exit.
    destruct ((i <? node_count cfg n) && (vc <? expect_votes cfg n)); cbn; [auto|].
    destruct (expect_votes cfg n <=? vc) eqn:E; cbn; [|auto].
    apply Nat.leb_le in E. split; [reflexivity|]. right. left. auto.
  Qed.

  (* the invariant for everybody but node c, whose local state is about to be replaced *)
  Record inv_except (s : state) (c : node) : Prop := mkInvE {
    ie_vote_term : forall t m x, votes s t m = Some x -> m <> c -> t <= term (loc s m);
    ie_electing : forall c' vc i, c' <> c -> electing (loc s c') = Some (vc, i) ->
      In c' (cfg_nodes cfg) /\ vc + F s c' (term (loc s c')) <= V s c' (term (loc s c'));
    ie_leader : forall c', c' <> c -> leader (loc s c') = Some c' ->
      In c' (cfg_nodes cfg) /\ expect_votes cfg c' <= V s c' (term (loc s c'));
    ie_hnet : forall h, In h (hnet s) -> h_to h <> h_leader h;
    ie_rpc_peer : forall c' t p, rpcs s c' t p <> NoCall -> In p (peers cfg c')
  }.

  Lemma inv_weaken s c : inv s -> inv_except s c.
  Proof. intros [I1 I2 I3 I4 I5]. constructor; eauto. Qed.

  (* replace the local state of c by the result of electLeader's loop test *)
  Lemma inv_set_loop s c l vc i :
    inv_except s c ->
    In c (cfg_nodes cfg) ->
    (forall t x, votes s t c = Some x -> t <= term l) ->
    vc + F s c (term l) <= V s c (term l) ->
    (leader l = Some c -> expect_votes cfg c <= V s c (term l)) ->
    inv (set_loc s c (loop_or_exit cfg c l vc i)).
  Proof.
    intros [I1 I2 I3 I4 I5] Hc Hv Hcount Hl.
    destruct (loop_or_exit_spec c l vc i) as (Et & Hcases).
    set (l' := loop_or_exit cfg c l vc i) in *.
    constructor; unfold V, F in *; cbn [loc rpcs votes hnet set_loc] in *.
    - intros t m x Hx. unfold upd. destruct (Nat.eqb_spec m c) as [->|]; [|eauto].
      rewrite Et. eauto.
    - intros c' vc' i'. unfold upd. destruct (Nat.eqb_spec c' c) as [->|]; [|now apply I2].
      rewrite Et. intros He. split; [assumption|].
      destruct Hcases as [(E & _)|[(E & _)|(E & _)]]; rewrite E in He; try discriminate.
      injection He as <- <-. exact Hcount.
    - intros c'. unfold upd. destruct (Nat.eqb_spec c' c) as [->|]; [|now apply I3].
      rewrite Et. intros Hld. split; [assumption|].
      destruct Hcases as [(_ & E)|[(_ & _ & E)|(_ & E)]].
      + apply Hl. congruence.
      + lia.
      + apply Hl. congruence.
    - exact I4.
    - exact I5.
  Qed.

  (* replace the local state of n by one with the same or a later term that is
     neither electing nor a self-leader unless it was so before in the same term;
     votes and calls untouched; health messages replaced by well-formed ones *)
  Lemma inv_set_loc_same s n l' hn :
    inv s ->
    term (loc s n) <= term l' ->
    (forall e, electing l' = Some e -> electing (loc s n) = Some e /\ term l' = term (loc s n)) ->
    (leader l' = Some n -> leader (loc s n) = Some n /\ term l' = term (loc s n)) ->
    (forall h, In h hn -> h_to h <> h_leader h) ->
    inv (set_loc (set_hnet s hn) n l').
  Proof.
    intros [I1 I2 I3 I4 I5] Ht He Hl Hh.
    constructor; unfold V, F in *; cbn [loc rpcs votes hnet set_loc set_hnet] in *.
    - intros t m x Hx. unfold upd. destruct (Nat.eqb_spec m n) as [->|]; [|eauto].
      specialize (I1 _ _ _ Hx). lia.
    - intros c vc i. unfold upd. destruct (Nat.eqb_spec c n) as [->|]; [|apply I2].
      intros E. destruct (He _ E) as [E1 E2]. rewrite E2. now apply (I2 n vc i).
    - intros c. unfold upd. destruct (Nat.eqb_spec c n) as [->|]; [|apply I3].
      intros E. destruct (Hl E) as [E1 E2]. rewrite E2. now apply I3.
    - exact Hh.
    - exact I5.
  Qed.

  (* ---- the steps ---- *)

  Lemma inv_tick s n d ok : inv s -> inv (tick cfg s n d ok).
  Proof.
    intros Hinv. unfold tick.
    destruct (mem n (cfg_nodes cfg)) eqn:Hmem; cbn [negb]; [|assumption].
    apply mem_In in Hmem.
    destruct (electing (loc s n)) as [e|] eqn:El; [assumption|].
    destruct (is_leader (loc s n) n) eqn:Ld.
    - (* leader: health checks *)
      unfold send_health.
      destruct (health_results (cfg_fail_limit cfg) ok (peers cfg n) (fail_count (loc s n)) false) as [fc rh].
      set (l' := if rh then _ else _).
      assert (Hf : term l' = term (loc s n) /\ leader l' = leader (loc s n) /\ electing l' = electing (loc s n))
        by (unfold l'; destruct rh; cbn; auto).
      destruct Hf as (Ht & Hl & He).
      apply inv_set_loc_same; auto.
      + lia.
      + intros e. rewrite He. auto.
      + rewrite Hl. auto.
      + intros h Hh. apply in_app_or in Hh as [Hh|Hh]; [now apply (inv_hnet _ Hinv)|].
        apply in_map_iff in Hh as (p & <- & Hp). cbn. apply filter_In in Hp as [Hp _].
        apply peers_In in Hp. tauto.
    - destruct (cfg_vote_timeout cfg <=? S (missed (loc s n))).
      + (* start an election *)
        unfold start_election.
        set (t := S (term (loc s n))).
        set (l1 := with_missed (with_term_leader (loc s n) t None) 0).
        set (s1 := mkState (loc s) _ (hnet s) (votes s)).
        assert (Hnone : votes s t n = None).
        { destruct (votes s t n) eqn:E; [|reflexivity]. apply (inv_vote_term _ Hinv) in E. unfold t in E. lia. }
        assert (HV : forall c' t', V s c' t' <= V (set_vote s1 t n n) c' t').
        { intros c' t'. apply (V_set_vote_ge s1 t n n c' t'). exact Hnone. }
        destruct Hinv as [I1 I2 I3 I4 I5].
        apply inv_set_loop; auto.
        * constructor; cbn.
          -- intros t' m x Hx Hm. apply Nat.eqb_neq in Hm. rewrite Hm, andb_false_r in Hx. eauto.
          -- intros c' vc i Hc' E. destruct (I2 _ _ _ E) as [Hin Hle]. split; [assumption|].
             specialize (HV c' (term (loc s c'))).
             assert (HF : F (set_vote s1 t n n) c' (term (loc s c')) = F s c' (term (loc s c'))).
             { unfold F. apply count_ext_in. intros x _. cbn.
               apply Nat.eqb_neq in Hc'. now rewrite Hc'. }
             rewrite HF. lia.
          -- intros c' Hc' E. destruct (I3 _ E) as [Hin Hle]. split; [assumption|].
             specialize (HV c' (term (loc s c'))). lia.
          -- exact I4.
          -- intros c' t' p. cbn.
             destruct ((c' =? n) && (t' =? t) && mem p (peers cfg n)) eqn:E; [|apply I5].
             intros _. apply andb_true_iff in E as [E E3]. apply andb_true_iff in E as [E1 E2].
             apply Nat.eqb_eq in E1. subst. now apply mem_In.
        * intros t' x. cbn. destruct ((t' =? t) && (n =? n)) eqn:E.
          -- apply andb_true_iff in E as [E _]. apply Nat.eqb_eq in E. subst. intros _. cbn. lia.
          -- intros Hx. apply I1 in Hx. cbn. unfold t. lia.
        * cbn [term l1 with_missed with_term_leader].
          assert (HF : F (set_vote s1 t n n) n t = 0).
          { unfold F. apply count_zero. intros p Hp. cbn.
            rewrite !Nat.eqb_refl. apply mem_In in Hp. rewrite Hp. reflexivity. }
          pose proof (V_set_vote_same s1 t n n Hnone Hmem). lia.
        * cbn. discriminate.
      + (* one more missed heartbeat *)
        replace (set_loc s n (with_missed (loc s n) (S (missed (loc s n)))))
          with (set_loc (set_hnet s (hnet s)) n (with_missed (loc s n) (S (missed (loc s n)))))
          by (destruct s; reflexivity).
        apply inv_set_loc_same; cbn; auto.
        apply (inv_hnet _ Hinv).
  Qed.

  Lemma inv_deliver_req s c t m : inv s -> inv (deliver_req cfg s c t m).
  Proof.
    intros Hinv. unfold deliver_req.
    destruct (rpcs s c t m) eqn:R; try assumption.
    destruct (mem m (cfg_nodes cfg)) eqn:Hmem; cbn [negb]; [|assumption].
    apply mem_In in Hmem.
    destruct (electing (loc s m)) as [e|] eqn:El; [assumption|].
    assert (Hpeer : In m (peers cfg c)) by (apply (inv_rpc_peer _ Hinv c t m); congruence).
    destruct (term (loc s m) <? t) eqn:Lt.
    - (* vote yes *)
      apply Nat.ltb_lt in Lt.
      assert (Hnone : votes s t m = None).
      { destruct (votes s t m) eqn:E; [|reflexivity]. apply (inv_vote_term _ Hinv) in E. lia. }
      set (s1 := set_loc s m (with_term_leader (loc s m) t None)).
      assert (Hnone1 : votes s1 t m = None) by exact Hnone.
      destruct Hinv as [I1 I2 I3 I4 I5].
      constructor.
      + intros t' m' x. cbn. unfold upd.
        destruct ((t' =? t) && (m' =? m)) eqn:E.
        * apply andb_true_iff in E as [E1 E2]. apply Nat.eqb_eq in E1, E2. subst.
          rewrite Nat.eqb_refl. cbn. lia.
        * intros Hx. apply I1 in Hx. destruct (Nat.eqb_spec m' m) as [->|]; cbn; lia.
      + intros c' vc i E.
        assert (Hc' : c' <> m).
        { intros ->. revert E. cbn. unfold upd. rewrite Nat.eqb_refl. cbn. rewrite ?El. intros E; discriminate E. }
        assert (Eloc : loc (set_rpc (set_vote s1 t m c) c t m (RepFlying (Granted t))) c' = loc s c').
        { cbn. unfold upd. apply Nat.eqb_neq in Hc'. now rewrite Hc'. }
        rewrite Eloc in *.
        destruct (I2 _ _ _ E) as [Hin Hle]. split; [assumption|].
        set (T := term (loc s c')) in *.
        change (vc + F (set_rpc (set_vote s1 t m c) c t m (RepFlying (Granted t))) c' T
                <= V (set_vote s1 t m c) c' T).
        destruct (Nat.eq_dec c' c) as [->|Hc]; [destruct (Nat.eq_dec T t) as [->|HT]|].
        * pose proof (F_set_rpc_le1 (set_vote s1 t m c) c t m (RepFlying (Granted t))).
          pose proof (V_set_vote_same s1 t m c Hnone1 Hmem).
          change (F (set_vote s1 t m c) c t) with (F s c t) in *.
          change (V s1 c t) with (V s c t) in *. lia.
        * rewrite F_set_rpc_other by tauto.
          pose proof (V_set_vote_ge s1 t m c c T Hnone1).
          change (F (set_vote s1 t m c) c T) with (F s c T).
          change (V s1 c T) with (V s c T) in *. lia.
        * rewrite F_set_rpc_other by tauto.
          pose proof (V_set_vote_ge s1 t m c c' T Hnone1).
          change (F (set_vote s1 t m c) c' T) with (F s c' T).
          change (V s1 c' T) with (V s c' T) in *. lia.
      + intros c' E.
        assert (Hc' : c' <> m).
        { intros ->. revert E. cbn. unfold upd. rewrite Nat.eqb_refl. cbn. rewrite ?El. intros E; discriminate E. }
        assert (Eloc : loc (set_rpc (set_vote s1 t m c) c t m (RepFlying (Granted t))) c' = loc s c').
        { cbn. unfold upd. apply Nat.eqb_neq in Hc'. now rewrite Hc'. }
        rewrite Eloc in *.
        destruct (I3 _ E) as [Hin Hle]. split; [assumption|].
        pose proof (V_set_vote_ge s1 t m c c' (term (loc s c')) Hnone1).
        change (V s1 c' (term (loc s c'))) with (V s c' (term (loc s c'))) in *.
        change (expect_votes cfg c' <= V (set_vote s1 t m c) c' (term (loc s c'))). lia.
      + exact I4.
      + intros c' t' p. cbn.
        destruct ((c' =? c) && (t' =? t) && (p =? m)) eqn:E; [|apply I5].
        intros _. apply andb_true_iff in E as [E E3]. apply andb_true_iff in E as [E1 E2].
        apply Nat.eqb_eq in E1, E3. now subst.
    - (* vote no *)
      destruct Hinv as [I1 I2 I3 I4 I5].
      constructor; auto.
      + intros c' vc i E. destruct (I2 _ _ _ E) as [Hin Hle]. split; [assumption|].
        pose proof (F_set_rpc_any s c t m (RepFlying (Denied (term (loc s m)))) c' (term (loc s c')) eq_refl).
        cbn [loc set_rpc] in *.
        change (V (set_rpc s c t m (RepFlying (Denied (term (loc s m))))) c' (term (loc s c'))) with (V s c' (term (loc s c'))).
        lia.
      + intros c' t' p. cbn.
        destruct ((c' =? c) && (t' =? t) && (p =? m)) eqn:E; [|apply I5].
        intros _. apply andb_true_iff in E as [E E3]. apply andb_true_iff in E as [E1 E2].
        apply Nat.eqb_eq in E1, E3. now subst.
  Qed.

  (* a call moves to a state that is not a yes-reply in flight *)
  Lemma inv_set_rpc_nongranted s c t m r :
    inv s -> rpcs s c t m <> NoCall -> granted_flying r = false -> inv (set_rpc s c t m r).
  Proof.
    intros [I1 I2 I3 I4 I5] Hnc Hr. constructor; auto.
    - intros c' vc i E. destruct (I2 _ _ _ E) as [Hin Hle]. split; [assumption|].
      pose proof (F_set_rpc_any s c t m r c' (term (loc s c')) Hr).
      cbn [loc set_rpc] in *.
      change (V (set_rpc s c t m r) c' (term (loc s c'))) with (V s c' (term (loc s c'))). lia.
    - intros c' t' p. cbn.
      destruct ((c' =? c) && (t' =? t) && (p =? m)) eqn:E; [|apply I5].
      intros _. apply andb_true_iff in E as [E E3]. apply andb_true_iff in E as [E1 E2].
      apply Nat.eqb_eq in E1, E2, E3. subst. now apply I5 with t.
  Qed.

  Lemma inv_deliver_rep s c t m : inv s -> inv (deliver_rep cfg s c t m).
  Proof.
    intros Hinv. unfold deliver_rep.
    destruct (rpcs s c t m) as [| |r|] eqn:R; try assumption.
    assert (Hs1 : inv (set_rpc s c t m Finished)) by (apply inv_set_rpc_nongranted; [assumption|congruence|reflexivity]).
    set (s1 := set_rpc s c t m Finished) in *.
    destruct (electing (loc s c)) as [[vc i]|] eqn:El; [|assumption].
    destruct (Nat.eqb_spec (term (loc s c)) t) as [Et|]; [|assumption].
    assert (Hpeer : In m (peers cfg c)) by (apply (inv_rpc_peer _ Hinv c t m); congruence).
    destruct (inv_electing _ Hinv _ _ _ El) as [Hc Hle]. rewrite Et in Hle.
    assert (HF : F s1 c t <= F s c t) by (apply F_set_rpc_any; reflexivity).
    assert (HV : V s1 c t = V s c t) by reflexivity.
    set (vi := match r with Granted _ => _ | Denied rt => _ | RpcError => _ end).
    destruct vi as [vc' i'] eqn:Evi.
    apply inv_set_loop; auto.
    - now apply inv_weaken.
    - intros t' x Hx. apply (inv_vote_term _ Hinv) in Hx. exact Hx.
    - rewrite Et, HV. unfold vi in Evi. destruct r as [rt|rt|].
      + injection Evi as <- <-.
        pose proof (F_set_rpc_consume s c t m Finished) as Hcons.
        rewrite R in Hcons. specialize (Hcons eq_refl Hpeer eq_refl). fold s1 in Hcons. lia.
      + destruct (term (loc s c) <? rt); injection Evi as <- <-; lia.
      + injection Evi as <- <-. lia.
    - intros Hld. rewrite Et. destruct (inv_leader _ Hinv _ Hld) as [_ H]. rewrite Et in H. rewrite HV. exact H.
  Qed.

  Lemma inv_lose_rpc s c t m : inv s -> inv (lose_rpc s c t m).
  Proof.
    intros Hinv. unfold lose_rpc.
    destruct (rpcs s c t m) eqn:R; try assumption; apply inv_set_rpc_nongranted; auto; congruence.
  Qed.

  Lemma inv_fail_rpc s c t m : inv s -> inv (fail_rpc s c t m).
  Proof.
    intros Hinv. unfold fail_rpc.
    destruct (rpcs s c t m) eqn:R; try assumption; apply inv_set_rpc_nongranted; auto; congruence.
  Qed.

  Lemma inv_timeout s c : inv s -> inv (election_timeout cfg s c).
  Proof.
    intros Hinv. unfold election_timeout.
    destruct (electing (loc s c)) as [[vc i]|] eqn:El; [|assumption].
    destruct (inv_electing _ Hinv _ _ _ El) as [Hc Hle].
    apply inv_set_loop; auto.
    - now apply inv_weaken.
    - intros t' x Hx. apply (inv_vote_term _ Hinv) in Hx. exact Hx.
    - intros Hld. now destruct (inv_leader _ Hinv _ Hld).
  Qed.

  Lemma In_remove_nth {A} (x : A) i l : In x (remove_nth i l) -> In x l.
  Proof.
    revert i. induction l as [|y l IH]; intros i; [destruct i; auto|].
    destruct i as [|i]; cbn; [auto|]. intros [->|H]; eauto.
  Qed.

  Lemma handle_health_spec l h :
    let l' := handle_health l h in
    term l <= term l' /\ electing l' = electing l /\
    ((leader l' = leader l /\ term l' = term l) \/ leader l' = Some (h_leader h)).
  Proof.
    unfold handle_health.
    destruct (h_term h <? term l) eqn:E1; [cbn; auto|]. apply Nat.ltb_ge in E1.
    set (l1 := if term l <? h_term h then _ else _).
    assert (H1 : term l <= term l1 /\ electing l1 = electing l /\
                 ((leader l1 = leader l /\ term l1 = term l) \/ leader l1 = Some (h_leader h))).
    { unfold l1. destruct (term l <? h_term h) eqn:E2.
      - apply Nat.ltb_lt in E2. cbn. auto with arith.
      - destruct (is_leader l (h_leader h)); cbn; auto. }
    destruct (negb _); [destruct (rehash_skipped _)|]; cbn; exact H1.
  Qed.

  Lemma inv_deliver_health s idx : inv s -> inv (deliver_health s idx).
  Proof.
    intros Hinv. unfold deliver_health.
    destruct (nth_error (hnet s) idx) as [h|] eqn:Hn; [|assumption].
    destruct (electing (loc s (h_to h))) eqn:El; [assumption|].
    destruct (handle_health_spec (loc s (h_to h)) h) as (Ht & He & Hl).
    apply inv_set_loc_same; auto.
    - intros e. rewrite He, El. discriminate.
    - intros Hld. destruct Hl as [[E1 E2]|E]; [rewrite <- E1; auto|].
      exfalso. apply nth_error_In in Hn. apply (inv_hnet _ Hinv) in Hn. congruence.
    - intros h' Hh'. apply In_remove_nth in Hh'. now apply (inv_hnet _ Hinv).
  Qed.

  Lemma inv_step s e : inv s -> inv (step cfg s e).
  Proof.
    intros Hinv. destruct e; cbn [step].
    - now apply inv_tick.
    - now apply inv_deliver_req.
    - now apply inv_deliver_rep.
    - now apply inv_lose_rpc.
    - now apply inv_fail_rpc.
    - now apply inv_timeout.
    - now apply inv_deliver_health.
    - destruct Hinv as [I1 I2 I3 I4 I5].
      constructor; [exact I1|exact I2|exact I3| |exact I5].
      intros h Hh. apply In_remove_nth in Hh. now apply I4.
  Qed.

  Lemma inv_fold evs : forall s, inv s -> inv (fold_left (step cfg) evs s).
  Proof. induction evs as [|e evs IH]; cbn; auto using inv_step. Qed.

  Lemma inv_run evs : inv (run cfg evs).
  Proof. apply inv_fold, inv_init. Qed.

  (* ---- term never decreases ---- *)

  Lemma loop_or_exit_term n l vc i : term (loop_or_exit cfg n l vc i) = term l.
  Proof. apply loop_or_exit_spec. Qed.

  Lemma step_term_monotone s e n : term (loc s n) <= term (loc (step cfg s e) n).
  Proof.
    destruct e; cbn [step].
    - unfold tick. destruct (negb _); [lia|]. destruct (electing _); [lia|].
      destruct (is_leader _ _).
      + unfold send_health. destruct (health_results _ _ _ _ _) as [fc rh]. cbn. unfold upd.
        destruct (n =? n0) eqn:E; [|lia]. apply Nat.eqb_eq in E. subst. destruct rh; cbn; lia.
      + destruct (_ <=? _).
        * unfold start_election. cbn. unfold upd. destruct (n =? n0) eqn:E; [|lia].
          apply Nat.eqb_eq in E. subst. rewrite loop_or_exit_term. cbn. lia.
        * cbn. unfold upd. destruct (n =? n0) eqn:E; [|lia]. apply Nat.eqb_eq in E. subst. cbn. lia.
    - unfold deliver_req. destruct (rpcs s c t m); try lia. destruct (negb _); [lia|].
      destruct (electing _); [lia|]. destruct (term (loc s m) <? t) eqn:E; cbn; [|lia].
      apply Nat.ltb_lt in E. unfold upd. destruct (n =? m) eqn:E2; [|lia]. apply Nat.eqb_eq in E2. subst. cbn. lia.
    - unfold deliver_rep. destruct (rpcs s c t m); try lia. destruct (electing (loc s c)) as [[vc i]|]; cbn; [|lia].
      destruct (term (loc s c) =? t); cbn; [|lia].
      destruct (match r with Granted _ => _ | Denied rt => _ | RpcError => _ end) as [vc' i'].
      cbn. unfold upd. destruct (n =? c) eqn:E2; [|lia]. apply Nat.eqb_eq in E2. subst.
      rewrite loop_or_exit_term. lia.
    - unfold lose_rpc. destruct (rpcs s c t m); cbn; lia.
    - unfold fail_rpc. destruct (rpcs s c t m); cbn; lia.
    - unfold election_timeout. destruct (electing (loc s c)) as [[vc i]|]; cbn; [|lia].
      unfold upd. destruct (n =? c) eqn:E2; [|lia]. apply Nat.eqb_eq in E2. subst.
      rewrite loop_or_exit_term. lia.
    - unfold deliver_health. destruct (nth_error _ _) as [h|]; [|lia].
      destruct (electing _); [lia|]. cbn. unfold upd. destruct (n =? h_to h) eqn:E2; [|lia].
      apply Nat.eqb_eq in E2. subst. apply handle_health_spec.
    - cbn. lia.
  Qed.

  Lemma fold_term_monotone evs : forall s n, term (loc s n) <= term (loc (fold_left (step cfg) evs s) n).
  Proof.
    induction evs as [|e evs IH]; cbn; intros s n; [lia|].
    etransitivity; [apply (step_term_monotone s e n)|apply IH].
  Qed.

  Lemma run_app evs evs' : run cfg (evs ++ evs') = fold_left (step cfg) evs' (run cfg evs).
  Proof. unfold run. apply fold_left_app. Qed.

  Lemma term_monotone evs evs' n : term (loc (run cfg evs) n) <= term (loc (run cfg (evs ++ evs')) n).
  Proof. rewrite run_app. apply fold_term_monotone. Qed.

  (* ---- a vote, once given, is never changed: at most one vote per node per term ---- *)

  Lemma step_votes_stable s e t m c : inv s -> votes s t m = Some c -> votes (step cfg s e) t m = Some c.
  Proof.
    intros Hinv Hv. destruct e; cbn [step].
    - unfold tick. destruct (negb _); [assumption|]. destruct (electing _); [assumption|].
      destruct (is_leader _ _).
      + unfold send_health. destruct (health_results _ _ _ _ _) as [fc rh]. exact Hv.
      + destruct (_ <=? _); [|exact Hv].
        unfold start_election. cbn.
        destruct ((t =? S (term (loc s n))) && (m =? n)) eqn:E; [|exact Hv].
        apply andb_true_iff in E as [E1 E2]. apply Nat.eqb_eq in E1, E2. subst.
        apply (inv_vote_term _ Hinv) in Hv. lia.
    - unfold deliver_req. destruct (rpcs s c0 t0 m0); try assumption. destruct (negb _); [assumption|].
      destruct (electing _); [assumption|]. destruct (term (loc s m0) <? t0) eqn:E; [|exact Hv].
      apply Nat.ltb_lt in E. cbn.
      destruct ((t =? t0) && (m =? m0)) eqn:E2; [|exact Hv].
      apply andb_true_iff in E2 as [E1 E2]. apply Nat.eqb_eq in E1, E2. subst.
      apply (inv_vote_term _ Hinv) in Hv. lia.
    - unfold deliver_rep. destruct (rpcs s c0 t0 m0); try assumption.
      destruct (electing (loc s c0)) as [[vc i]|]; [|exact Hv].
      destruct (term (loc s c0) =? t0); [|exact Hv].
      destruct (match r with Granted _ => _ | Denied rt => _ | RpcError => _ end) as [vc' i']. exact Hv.
    - unfold lose_rpc. destruct (rpcs s c0 t0 m0); exact Hv.
    - unfold fail_rpc. destruct (rpcs s c0 t0 m0); exact Hv.
    - unfold election_timeout. destruct (electing (loc s c0)) as [[vc i]|]; exact Hv.
    - unfold deliver_health. destruct (nth_error _ _) as [h|]; [|exact Hv]. destruct (electing _); exact Hv.
    - exact Hv.
  Qed.

  Lemma fold_votes_stable evs : forall s t m c, inv s -> votes s t m = Some c ->
    votes (fold_left (step cfg) evs s) t m = Some c.
  Proof.
    induction evs as [|e evs IH]; cbn; intros s t m c Hinv Hv; [assumption|].
    apply IH; [now apply inv_step|now apply step_votes_stable].
  Qed.

  Lemma one_vote_per_term evs evs' t m c c' :
    votes (run cfg evs) t m = Some c -> votes (run cfg (evs ++ evs')) t m = Some c' -> c = c'.
  Proof.
    intros H1 H2. rewrite run_app in H2.
    rewrite (fold_votes_stable evs' _ t m c (inv_run evs) H1) in H2. congruence.
  Qed.

  (* the ghost is tied to the behaviour: a yes-reply is produced only by a node
     that had not voted in that term (not even for itself), and records the vote *)
  Lemma grant_spec s c t m rt :
    inv s -> rpcs s c t m = ReqFlying ->
    rpcs (deliver_req cfg s c t m) c t m = RepFlying (Granted rt) ->
    votes s t m = None /\ votes (deliver_req cfg s c t m) t m = Some c /\ rt = t /\
    term (loc s m) < t /\ term (loc (deliver_req cfg s c t m) m) = t.
  Proof.
    intros Hinv R. unfold deliver_req. rewrite R.
    destruct (negb _); [rewrite R; discriminate|].
    destruct (electing _); [rewrite R; discriminate|].
    destruct (term (loc s m) <? t) eqn:E.
    - apply Nat.ltb_lt in E. cbn. rewrite !Nat.eqb_refl. cbn. intros [= <-].
      repeat split; auto.
      + destruct (votes s t m) eqn:Ev; [|reflexivity]. apply (inv_vote_term _ Hinv) in Ev. lia.
      + unfold upd. now rewrite Nat.eqb_refl.
    - cbn. rewrite !Nat.eqb_refl. cbn. discriminate.
  Qed.

  (* a node votes no (or not at all) once its term has reached the request's term *)
  Lemma no_second_grant s c t m :
    t <= term (loc s m) -> granted_flying (rpcs (deliver_req cfg s c t m) c t m) = true ->
    granted_flying (rpcs s c t m) = true.
  Proof.
    intros Ht. unfold deliver_req. destruct (rpcs s c t m) eqn:R; try (rewrite R; auto).
    destruct (negb _); [rewrite R; auto|]. destruct (electing _); [rewrite R; auto|].
    assert (E : term (loc s m) <? t = false) by (apply Nat.ltb_ge; lia). rewrite E.
    cbn. rewrite !Nat.eqb_refl. cbn. auto.
  Qed.

  (* ---- a leader has the votes of a strict majority of ALL configured nodes ---- *)

  Lemma expect_votes_majority n :
    In n (cfg_nodes cfg) ->
    length (cfg_nodes cfg) < 2 * expect_votes cfg n /\ 2 * (expect_votes cfg n - 1) <= length (cfg_nodes cfg).
  Proof.
    intros Hin. unfold expect_votes. pose proof (peers_length cfg n nodup Hin) as H.
    replace (node_count cfg n + 1) with (length (cfg_nodes cfg)) by lia.
    pose proof (div2_majority (length (cfg_nodes cfg))).
    pose proof (Nat.div2_odd (length (cfg_nodes cfg))). destruct (Nat.odd _); cbn [Nat.b2n] in *; lia.
  Qed.

  Lemma leader_has_majority evs n :
    let s := run cfg evs in
    leader (loc s n) = Some n ->
    length (cfg_nodes cfg) < 2 * V s n (term (loc s n)).
  Proof.
    intros s Hl. destruct (inv_leader _ (inv_run evs) _ Hl) as [Hin Hle].
    pose proof (expect_votes_majority n Hin). fold s in Hle. lia.
  Qed.

  (* ---- election safety ---- *)

  Lemma safety evs n n' :
    let s := run cfg evs in
    leader (loc s n) = Some n -> leader (loc s n') = Some n' ->
    term (loc s n) = term (loc s n') -> n = n'.
  Proof.
    intros s H1 H2 Et.
    pose proof (leader_has_majority evs n H1) as M1.
    pose proof (leader_has_majority evs n' H2) as M2.
    fold s in M1, M2. rewrite <- Et in M2.
    destruct (Nat.eq_dec n n') as [|Ne]; [assumption|exfalso].
    pose proof (count_disjoint (fun m => vote_is (votes s (term (loc s n)) m) n)
                               (fun m => vote_is (votes s (term (loc s n)) m) n') (cfg_nodes cfg)) as D.
    unfold V in M1, M2. assert (Hd : forall x, vote_is (votes s (term (loc s n)) x) n = true ->
                                               vote_is (votes s (term (loc s n)) x) n' = true -> False).
    { intros x. destruct (votes s (term (loc s n)) x) as [y|]; cbn; [|discriminate].
      intros A B. apply Nat.eqb_eq in A, B. congruence. }
    specialize (D Hd). lia.
  Qed.

  (* ---- health checks ---- *)

  Lemma stale_ignored s idx h n :
    nth_error (hnet s) idx = Some h -> h_term h < term (loc s (h_to h)) ->
    loc (deliver_health s idx) n = loc s n.
  Proof.
    intros Hn Hlt. unfold deliver_health. rewrite Hn.
    destruct (electing _); [reflexivity|]. cbn. unfold upd.
    destruct (Nat.eqb_spec n (h_to h)) as [->|]; [|reflexivity].
    unfold handle_health. apply Nat.ltb_lt in Hlt. now rewrite Hlt.
  Qed.

  Lemma health_adopts s idx h :
    nth_error (hnet s) idx = Some h ->
    let l := loc s (h_to h) in
    let l' := loc (deliver_health s idx) (h_to h) in
    electing l = None -> term l <= h_term h ->
    term l' = h_term h /\ leader l' = Some (h_leader h) /\ missed l' = 0 /\ active_nodes l' = active_nodes l /\
    (if list_eqb (h_sig h) (sig_of (ring_nodes l)) then
       ring_nodes l' = ring_nodes l /\ rehash_skipped l' = rehash_skipped l
     else if rehash_skipped l then ring_nodes l' = h_nodes h /\ rehash_skipped l' = false
     else (* the first mismatching check only raises the flag *)
       ring_nodes l' = ring_nodes l /\ rehash_skipped l' = true).
  Proof.
    intros Hn l l' El Ht. unfold l', deliver_health. rewrite Hn. fold l. rewrite El.
    cbn. unfold upd. rewrite Nat.eqb_refl. unfold handle_health.
    assert (E : h_term h <? term l = false) by (apply Nat.ltb_ge; lia). rewrite E.
    destruct (term l <? h_term h) eqn:E2.
    - cbn. destruct (list_eqb _ _); cbn; [auto 10|]. destruct (rehash_skipped l); cbn; auto 10.
    - apply Nat.ltb_ge in E2. assert (Eq : term l = h_term h) by lia.
      unfold is_leader. destruct (leader l) as [x|] eqn:Ld.
      + destruct (Nat.eqb_spec x (h_leader h)) as [->|]; cbn; rewrite ?Ld;
          (destruct (list_eqb _ _); cbn; [auto 10|]; destruct (rehash_skipped l); cbn; auto 10).
      + cbn. destruct (list_eqb _ _); cbn; [auto 10|]. destruct (rehash_skipped l); cbn; auto 10.
  Qed.

  (* ---- partition ---- *)

  Lemma is_partitioned_iff s n :
    In n (cfg_nodes cfg) ->
    (is_partitioned cfg s n = true <-> 2 * length (active_nodes (loc s n)) <= length (cfg_nodes cfg)).
  Proof.
    intros Hin. unfold is_partitioned. rewrite Nat.leb_le.
    pose proof (peers_length cfg n nodup Hin) as H.
    replace (node_count cfg n + 1) with (length (cfg_nodes cfg)) by lia.
    pose proof (Nat.div2_odd (length (cfg_nodes cfg))). destruct (Nat.odd _); cbn [Nat.b2n] in *; lia.
  Qed.

  Lemma health_results_flag limit ok ps : forall fc rh,
    snd (health_results limit ok ps fc true) = true /\
    (snd (health_results limit ok ps fc rh) = true <->
     rh = true \/ snd (health_results limit ok ps fc false) = true).
  Proof.
    induction ps as [|p ps IH]; intros fc rh; cbn.
    - split; [reflexivity|]. destruct rh; intuition congruence.
    - destruct (mem p ok).
      + destruct (IH (upd fc p 0) true) as [T _]. split; [exact T|].
        destruct rh; cbn [orb]; [rewrite T; tauto|]. intuition congruence.
      + destruct (IH (upd fc p (S (fc p))) true) as [T _]. split; [exact T|].
        destruct rh; cbn [orb]; [rewrite T; tauto|]. intuition congruence.
  Qed.

  Lemma health_results_crossing limit ok ps : forall fc,
    NoDup ps ->
    (exists p, In p ps /\ mem p ok = false /\ S (fc p) = limit) ->
    snd (health_results limit ok ps fc false) = true.
  Proof.
    induction ps as [|q ps IH]; intros fc ND (p & Hin & Hok & Hlim); [destruct Hin|].
    apply NoDup_cons_iff in ND as [Hq ND']. cbn [health_results].
    destruct Hin as [->|Hin].
    - rewrite Hok, Hlim, Nat.eqb_refl. exact (proj1 (health_results_flag _ _ _ _ false)).
    - assert (Hne : p <> q) by (intros ->; contradiction).
      destruct (mem q ok).
      + destruct (limit <=? fc q); [exact (proj1 (health_results_flag _ _ _ _ false))|].
        apply IH; auto. exists p. unfold upd. apply Nat.eqb_neq in Hne. rewrite Hne. auto.
      + destruct (S (fc q) =? limit); [exact (proj1 (health_results_flag _ _ _ _ false))|].
        apply IH; auto. exists p. unfold upd. apply Nat.eqb_neq in Hne. rewrite Hne. auto.
  Qed.

  (* when some peer reaches the configured number of consecutive failed checks at
     this tick, the leader recomputes its active list = itself + the peers below
     the limit, and answers 502 if that is no more than half of the configured nodes *)
  Lemma partitioned_stops s n d ok :
    In n (cfg_nodes cfg) ->
    electing (loc s n) = None -> leader (loc s n) = Some n ->
    (exists p, In p (peers cfg n) /\ mem p ok = false /\ S (fail_count (loc s n) p) = cfg_fail_limit cfg) ->
    let s' := tick cfg s n d ok in
    let reach := filter (fun p => fail_count (loc s' n) p <? cfg_fail_limit cfg) (peers cfg n) in
    active_nodes (loc s' n) = n :: reach /\
    (2 * (1 + length reach) <= length (cfg_nodes cfg) -> dispatch cfg s' n = Err502).
  Proof.
    intros Hin El Ld Hx s'.
    assert (Hs' : active_nodes (loc s' n) =
                  n :: filter (fun p => fail_count (loc s' n) p <? cfg_fail_limit cfg) (peers cfg n)).
    { unfold s', tick. apply mem_In in Hin. rewrite Hin. cbn [negb]. rewrite El.
      unfold is_leader. rewrite Ld, Nat.eqb_refl. unfold send_health.
      pose proof (health_results_crossing (cfg_fail_limit cfg) ok (peers cfg n) (fail_count (loc s n))
                    (peers_nodup n) Hx) as Hc.
      destruct (health_results _ _ _ _ _) as [fc rh]. cbn in Hc. subst rh.
      cbn. unfold upd. rewrite Nat.eqb_refl. reflexivity. }
    split; [exact Hs'|].
    intros Hhalf. unfold dispatch.
    assert (P : is_partitioned cfg s' n = true).
    { apply is_partitioned_iff; [assumption|]. rewrite Hs'. cbn [length]. lia. }
    now rewrite P.
  Qed.
End Inv.

(* ------------------------------------------------------------------ *)
(* concrete executions (3 nodes 0,1,2; vote_after = 1, node_fail_after = 1) *)

Definition cfg3 : config := mkConfig [0; 1; 2] 1 1.

(* 0 is elected in term 1, loses contact with 2, recomputes its ring as {0,1};
   1 receives a check that still carries the old signature, then one with the
   new signature *)
Definition evs_lag : list event :=
  [Tick 0 [] []; DeliverReq 0 1 1; DeliverRep 0 1 1;
   Tick 0 [1] [1]; Tick 0 [1] [1]; DeliverHealth 0].

Definition adopts_ring_statement (cfg : config) : Prop :=
  forall evs idx h,
    let s := run cfg evs in
    nth_error (hnet s) idx = Some h ->
    electing (loc s (h_to h)) = None -> term (loc s (h_to h)) <= h_term h ->
    sig_of (ring_nodes (loc (deliver_health s idx) (h_to h))) = h_sig h.

(* the first accepted check with a new signature only raises rehashSkipped *)
Lemma adopts_ring_refuted : ~ adopts_ring_statement cfg3.
Proof.
  intros H. specialize (H evs_lag 0 (mkH 1 0 1 [0; 1] [0; 1])).
  vm_compute in H. specialize (H eq_refl eq_refl (le_n 1)). discriminate H.
Qed.

(* then 1 adopts {0,1}; 0 falls silent, 1 is elected in term 2 with the vote of 2
   (which is back).  The new leader 1 advertises the signature of its ring {0,1}
   together with ITS OWN activeNodes, which is still the list from failoverInit
   {0,2,1}: followers never learn a node list that matches the signature. *)
Definition evs_new_leader : list event :=
  evs_lag ++ [DeliverHealth 0; Tick 0 [1] [1]; DeliverHealth 0;
              Tick 1 [] []; DeliverReq 1 2 2; DeliverRep 1 2 2].
Definition health_round : list event := [Tick 1 [0; 2] [0; 2]; DeliverHealth 0; DeliverHealth 0].
Fixpoint rounds (k : nat) : list event := match k with O => [] | S k' => health_round ++ rounds k' end.

Definition leader_list_matches_ring_statement (cfg : config) : Prop :=
  forall evs n,
    let s := run cfg evs in
    leader (loc s n) = Some n ->
    sig_of (active_nodes (loc s n)) = sig_of (ring_nodes (loc s n)).

Lemma leader_list_matches_ring_refuted : ~ leader_list_matches_ring_statement cfg3.
Proof.
  intros H. specialize (H evs_new_leader 1). vm_compute in H. specialize (H eq_refl). discriminate H.
Qed.

(* all three nodes are up, every check is delivered and answered, everybody has
   accepted leader 1 in term 2, and still node 2 keeps a ring different from the
   leader's: after every one of the first 40 rounds of health checks *)
Definition diverged (s : state) : bool :=
  is_leader (loc s 1) 1 && is_leader (loc s 0) 1 && is_leader (loc s 2) 1 &&
  (term (loc s 0) =? 2) && (term (loc s 1) =? 2) && (term (loc s 2) =? 2) &&
  (fail_count (loc s 1) 0 =? 0) && (fail_count (loc s 1) 2 =? 0) &&
  list_eqb (sig_of (ring_nodes (loc s 0))) [0; 1] &&
  list_eqb (sig_of (ring_nodes (loc s 1))) [0; 1] &&
  list_eqb (sig_of (ring_nodes (loc s 2))) [0; 1; 2].

Lemma ring_divergence_persists :
  forall k, k <= 40 -> diverged (run cfg3 (evs_new_leader ++ rounds (S k))) = true.
Proof.
  assert (H : forallb (fun k => diverged (run cfg3 (evs_new_leader ++ rounds (S k)))) (seq 0 41) = true)
    by (vm_compute; reflexivity).
  intros k Hk. rewrite forallb_forall in H. apply H. apply in_seq. lia.
Qed.

(* satisfiability: a leader does get elected, and a partitioned leader answers 502 *)
Example leader_elected :
  let s := run cfg3 [Tick 0 [] []; DeliverReq 0 1 1; DeliverRep 0 1 1] in
  leader (loc s 0) = Some 0 /\ term (loc s 0) = 1 /\ votes s 1 1 = Some 0 /\ votes s 1 0 = Some 0.
Proof. vm_compute. auto. Qed.

Example partitioned_leader_502 :
  let s := run cfg3 [Tick 0 [] []; DeliverReq 0 1 1; DeliverRep 0 1 1; Tick 0 [] []] in
  active_nodes (loc s 0) = [0] /\ dispatch cfg3 s 0 = Err502.
Proof. vm_compute. auto. Qed.

Lemma grant_run cfg : NoDup (cfg_nodes cfg) -> forall evs c t m rt,
  let s := run cfg evs in
  rpcs s c t m = ReqFlying ->
  rpcs (deliver_req cfg s c t m) c t m = RepFlying (Granted rt) ->
  votes s t m = None /\ votes (deliver_req cfg s c t m) t m = Some c /\ rt = t /\
  term (loc s m) < t /\ term (loc (deliver_req cfg s c t m) m) = t.
Proof. intros ND evs c t m rt s. apply grant_spec. now apply inv_run. Qed.

(* ---- the panic site of the healthCheck case (repaired by the nil check) ---- *)

Lemma gc_proxy_sessions_repaired cfg self active : gc_proxy_sessions true cfg self active = true.
Proof.
  unfold gc_proxy_sessions. apply forallb_forall. intros p _. unfold gc_for_node.
  destruct (p =? self); reflexivity.
Qed.

(* unrepaired: it returns iff the list contains this node *)
Lemma gc_proxy_sessions_unrepaired cfg self active :
  gc_proxy_sessions false cfg self active = mem self active.
Proof.
  unfold gc_proxy_sessions. cbn [filter].
  assert (Hrest : forallb (gc_for_node false self)
                    (filter (fun p => negb (mem p active)) (peers cfg self)) = true).
  { apply forallb_forall. intros p Hp. apply filter_In in Hp as [Hp _].
    apply peers_In in Hp as [_ Hne]. unfold gc_for_node. apply Nat.eqb_neq in Hne. now rewrite Hne. }
  destruct (mem self active); cbn [negb forallb]; [exact Hrest|].
  unfold gc_for_node at 1. now rewrite Nat.eqb_refl.
Qed.

(* the repaired handler never panics: in ANY state, for any message *)
Lemma health_never_panics_any cfg s idx : health_panics cfg s idx = false.
Proof.
  unfold health_panics, health_panics_gen.
  destruct (nth_error (hnet s) idx) as [h|]; [|reflexivity].
  destruct (electing _); [reflexivity|].
  rewrite gc_proxy_sessions_repaired. cbn [negb]. apply andb_false_r.
Qed.

Lemma health_never_panics cfg evs idx : health_panics cfg (run cfg evs) idx = false.
Proof. apply health_never_panics_any. Qed.

(* neither does the leader's own call (its new list starts with itself), repaired or not *)
Lemma leader_gc_never_panics repaired cfg n rest : leader_gc_panics repaired cfg n (n :: rest) = false.
Proof.
  unfold leader_gc_panics. destruct repaired; [now rewrite gc_proxy_sessions_repaired|].
  rewrite gc_proxy_sessions_unrepaired. cbn. now rewrite Nat.eqb_refl.
Qed.

(* exactly when the unrepaired handler panics *)
Lemma health_panics_unrepaired_iff cfg s idx :
  health_panics_unrepaired cfg s idx = true <->
  exists h, nth_error (hnet s) idx = Some h /\
    let l := loc s (h_to h) in
    electing l = None /\ term l <= h_term h /\
    list_eqb (h_sig h) (sig_of (ring_nodes l)) = false /\ rehash_skipped l = true /\
    mem (h_to h) (h_nodes h) = false.
Proof.
  unfold health_panics_unrepaired, health_panics_gen.
  destruct (nth_error (hnet s) idx) as [h|]; [|split; [discriminate|intros (h & H & _); discriminate]].
  split.
  - destruct (electing (loc s (h_to h))) eqn:El; [discriminate|].
    rewrite gc_proxy_sessions_unrepaired, !andb_true_iff, !negb_true_iff, Nat.ltb_ge.
    intros [[[H1 H2] H3] H4]. exists h. cbv zeta. auto 10.
  - intros (h' & [= <-] & El & H1 & H2 & H3 & H4). cbv zeta in *. rewrite El.
    rewrite gc_proxy_sessions_unrepaired, !andb_true_iff, !negb_true_iff, Nat.ltb_ge. auto.
Qed.

(* an unrepaired execution that has not panicked is an execution of [step]:
   every invariant and theorem about [run] holds for it *)
Lemma run_unrepaired_from_some cfg evs : forall s s',
  run_unrepaired_from cfg s evs = Some s' -> s' = fold_left (step cfg) evs s.
Proof.
  induction evs as [|e evs IH]; cbn; intros s s' H; [congruence|].
  destruct (step_unrepaired cfg s e) as [s1|] eqn:E; [|discriminate].
  assert (s1 = step cfg s e).
  { unfold step_unrepaired in E. destruct e; try congruence.
    destruct (health_panics_unrepaired cfg s idx); congruence. }
  subst. now apply IH.
Qed.

Lemma run_unrepaired_some cfg evs s : run_unrepaired cfg evs = Some s -> s = run cfg evs.
Proof. apply run_unrepaired_from_some. Qed.

Lemma safety_unrepaired cfg : NoDup (cfg_nodes cfg) -> forall evs s n n',
  run_unrepaired cfg evs = Some s ->
  leader (loc s n) = Some n -> leader (loc s n') = Some n' ->
  term (loc s n) = term (loc s n') -> n = n'.
Proof.
  intros ND evs s n n' H. apply run_unrepaired_some in H. subst. now apply safety.
Qed.

(* FIXED FINDING (was finding 3): before the nil check a follower that the leader
   had dropped from the active list twice crashed on the health check it received
   when reachable again: rehashSkipped is still set from the first time (it is
   never cleared by a matching check), so the list without the receiver is adopted
   at once and gcProxySessions dereferenced c.nodes[self] = nil *)
Definition health_never_panics_unrepaired_statement (cfg : config) : Prop :=
  forall evs idx, health_panics_unrepaired cfg (run cfg evs) idx = false.

Definition evs_flap : list event :=
  [Tick 0 [] []; DeliverReq 0 1 1; DeliverRep 0 1 1;   (* 0 leads term 1 *)
   Tick 0 [] [1];                                      (* the check of 2 fails: 2 dropped *)
   Tick 0 [2] [1; 2]; DeliverHealth 0;                 (* 2 is back: one check with the list {0,1}: flag raised *)
   Tick 0 [2] [1; 2]; DeliverHealth 0;                 (* list {0,1,2} again: matches, flag stays *)
   Tick 0 [] [1];                                      (* 2 dropped a second time *)
   Tick 0 [2] [1; 2]].                                 (* back again: the check carries {0,1} *)

Lemma health_never_panics_unrepaired_refuted : ~ health_never_panics_unrepaired_statement cfg3.
Proof. intros H. specialize (H evs_flap 0). vm_compute in H. discriminate H. Qed.

(* the same as an execution of the unrepaired step function: it ends in a panic,
   while the repaired code completes it and the node adopts the ring {0,1} *)
Lemma flap_unrepaired_panics : run_unrepaired cfg3 (evs_flap ++ [DeliverHealth 0]) = None.
Proof. vm_compute. reflexivity. Qed.

Lemma flap_repaired_adopts :
  let s := run cfg3 (evs_flap ++ [DeliverHealth 0]) in
  ring_nodes (loc s 2) = [0; 1] /\ leader (loc s 2) = Some 0 /\ term (loc s 2) = 1.
Proof. vm_compute. auto. Qed.
