(* C04, layer 2, acting on behalf of another user ({extra: {obo: <user>}}).  Definitions only.

   server/session.go, Session.dispatch:

     if msg.Extra == nil || msg.Extra.AsUser == ""  -> msg.AsUser = s.uid          (the session's own user)
     else if s.authLvl != auth.LevelRoot            -> 403, the request is dropped
     else if ParseUserId(msg.Extra.AsUser).IsZero() -> 400, the request is dropped
     else                                           -> msg.AsUser = msg.Extra.AsUser, msg.AuthLvl = LevelAuth

   after which the session-level routing (Session.subscribe / leave / publish / get / del) tests
   whether THE SESSION is attached to the topic (s.getSub(topic), keyed by session and topic, not
   by user) and the topic handlers (handleSubscription, handleMeta -> replyGetData / replyGetDel /
   replyDelMsg, handlePubBroadcast, handleLeaveRequest) take asUid = ParseUserId(msg.AsUser).

   The product model Sys/Topic.v already separates the two: [step] looks the requester's user
   up in its session map ([sess_uid sm sid]) and hands it to the handlers as [u], while the
   attachment test is [attached c sid].  A request executed on behalf of user [u] is therefore
   one [step] under the session map in which the session stands for [u] for the duration of this
   request: a root session is a family of virtual sessions, one per acted-for user, that share
   the attachment.

   {sub} carrying get="data del" ([QSubGet]) is handleSubscription: the subscription reply, then -
   unless the subscription was refused - replyGetData and replyGetDel called directly with the
   same (sess, asUid).

   What is NOT modelled is explicit ([None] = outside the modelled fragment):
     - a root session subscribing WITHOUT extra.obo (it subscribes at level root, which selects a
       different default access in thisUserSub) and its {set sub};
     - {leave} by a root session acting for a user other than the one the session is attached as
       (handleLeaveRequest -> remSession finds no such user: no reply at all);
     - {note}, {get desc}, {get sub}, {set sub}, {del sub} from a root session (they read
       msg.AuthLvl or sess.authLvl in places the group model does not have). *)
From Coq Require Import ZArith NArith List Bool.
From Tinode Require Import Base.Util Pure.Acs Sys.Topic Sys.TopicInst Sys.TopicHist.
Import ListNotations.
Open Scope Z_scope.

(* the `extra.obo` member of a request: absent (or ""), a user id, something that is not a user id *)
Inductive obo_c04 := OboNone | OboUser (u : N) | OboJunk.

Definition has_obo_c04 (ob : obo_c04) : bool := match ob with OboNone => false | _ => true end.

(* a request: the `extra.obo` member and the request proper.  [QSubGet] is {sub} carrying
   get = "data del" (either part optional, each with its since / before / limit): the topic's
   handleSubscription answers the subscription and then, unless the subscription was refused,
   calls replyGetData and replyGetDel itself with the same (sess, asUid). *)
Inductive oreq_c04 :=
| QReq (ob : obo_c04) (o : op)
| QSubGet (ob : obo_c04) (sid : N) (want : list N) (bkg : bool) (gd gl : option (Z * Z * Z)).

Definition q_obo (q : oreq_c04) : obo_c04 := match q with QReq ob _ => ob | QSubGet ob _ _ _ _ _ => ob end.
(* the request proper; for {sub get=...} its subscription part *)
Definition q_op (q : oreq_c04) : op := match q with QReq _ o => o | QSubGet _ sid want bkg _ _ => OSub sid want bkg end.

(* the subscription part of {sub get=...} went through: its reply (the last frame) is a 200 *)
Definition sub_accepted_c04 (sid : N) (o : out) : bool :=
  match rev o with
  | (s, Ctrl code _) :: _ => N.eqb s sid && (code =? 200)
  | (s, CtrlAcs code _ _ _) :: _ => N.eqb s sid && (code =? 200)
  | _ => false
  end.

(* handleSubscription: subscriptionReply, then replyGetData and replyGetDel for the same asUid;
   the store calls of the whole request are numbered through *)
Definition sub_get_c04 (sm' : sessmap) (f : fault) (x : state) (sid u : N) (want : list N) (bkg : bool)
           (gd gl : option (Z * Z * Z)) : state * out :=
  let '(x1, o1) := step_i sm' f x (OSub sid want bkg) in
  if sub_accepted_c04 sid o1 then
    match ca x1 with
    | Some c =>
      let h1 := match gd with
                | Some (a, b, l) => get_data f (st x1) c (ncalls x1) sid u a b l
                | None => mkH (st x1) c (ncalls x1) []
                end in
      let h2 := match gl with
                | Some (a, b, l) => get_del norm_ranges_i f (h_st h1) (h_ca h1) (h_n h1) sid u a b l
                | None => mkH (h_st h1) (h_ca h1) (h_n h1) []
                end in
      (mkState (h_st h2) (Some (h_ca h2)) (h_n h2), o1 ++ h_out h1 ++ h_out h2)
    | None => (x1, o1)
    end
  else (x1, o1).

Section Obo.
Variable sm : sessmap.          (* session -> the user it is logged in as (Session.uid) *)
Variable roots : list N.        (* the sessions whose authLvl is LevelRoot *)

Definition is_root_c04 (sid : N) : bool := existsb (N.eqb sid) roots.

(* Session.dispatch: the user a request of session [sid] is executed as (msg.AsUser),
   or the error code it is answered with *)
Definition dispatch_as_c04 (sid : N) (ob : obo_c04) : N + Z :=
  match ob with
  | OboNone => inl (sess_uid sm sid)
  | OboUser u => if negb (is_root_c04 sid) then inr 403 else if (u =? 0)%N then inr 400 else inl u
  | OboJunk => if negb (is_root_c04 sid) then inr 403 else inr 400
  end.

(* the session map of one request: the session stands for the acting user *)
Definition sm_as_c04 (sid u : N) : sessmap := (sid, u) :: sm.

(* the fragment of a ROOT session's requests that is modelled *)
Definition root_req_ok_c04 (x : state) (sid u : N) (ob : obo_c04) (o : op) : bool :=
  match o with
  | OSub _ _ _ => has_obo_c04 ob
  | OPub _ _ _ | OGetData _ _ _ _ | OGetDel _ _ _ _ | ODelMsg _ _ _ => true
  | OLeave _ _ =>
    match ca x with
    | Some c => match alookup sid (c_sess c) with Some (a, _) => N.eqb a u | None => true end
    | None => true
    end
  | _ => false
  end.

(* one request, handled to quiescence *)
Definition ostep_c04 (f : fault) (x : state) (q : oreq_c04) : option (state * out) :=
  match q with
  | QReq ob o =>
    match op_sid o with
    | None => if has_obo_c04 ob then None else Some (step_i sm f x o)
    | Some sid =>
      match dispatch_as_c04 sid ob with
      | inr code => Some (mkState (st x) (ca x) 0, [(sid, Ctrl code [])])
      | inl u =>
        if is_root_c04 sid && negb (root_req_ok_c04 x sid u ob o) then None
        else Some (step_i (sm_as_c04 sid u) f x o)
      end
    end
  | QSubGet ob sid want bkg gd gl =>
    match dispatch_as_c04 sid ob with
    | inr code => Some (mkState (st x) (ca x) 0, [(sid, Ctrl code [])])
    | inl u =>
      if is_root_c04 sid && negb (has_obo_c04 ob) then None
      else Some (sub_get_c04 (sm_as_c04 sid u) f x sid u want bkg gd gl)
    end
  end.

(* a crash discards the in-memory state after the faulty request (as Topic.step_f) *)
Definition ostep_f_c04 (x : state) (fq : fault * oreq_c04) : option (state * out) :=
  match ostep_c04 (fst fq) x (snd fq) with
  | None => None
  | Some (x1, o1) =>
    match fst fq with
    | CrashAt _ => Some (mkState (st x1) None (ncalls x1), o1)
    | _ => Some (x1, o1)
    end
  end.

Fixpoint orun_c04 (x : state) (h : list (fault * oreq_c04)) : option (state * list out) :=
  match h with
  | [] => Some (x, [])
  | fq :: r =>
    match ostep_f_c04 x fq with
    | None => None
    | Some (x1, o1) =>
      match orun_c04 x1 r with
      | None => None
      | Some (x2, os) => Some (x2, o1 :: os)
      end
    end
  end.

(* ------------------------------------------------------------------ *)
(* the specification side (Sys/TopicHist.v): the event of a request is read with the
   ACTING user as the author of a publish and the owner of a soft deletion *)

Definition acting_c04 (q : oreq_c04) : option (N * N) :=      (* (session, acting user) *)
  match op_sid (q_op q) with
  | None => None
  | Some sid => match dispatch_as_c04 sid (q_obo q) with inl u => Some (sid, u) | inr _ => None end
  end.

Definition oevent_c04 (x : state) (q : oreq_c04) (ou : out) : hevent :=
  match acting_c04 q with
  | Some (sid, u) => event_of (sm_as_c04 sid u) x (q_op q) ou
  | None => HNone
  end.

Fixpoint ohs_run_c04 (x : state) (h : list (fault * oreq_c04)) (a : hspec) : hspec :=
  match h with
  | [] => a
  | fq :: r =>
    match ostep_f_c04 x fq with
    | None => a
    | Some (x1, o1) => ohs_run_c04 x1 r (hs_step a (oevent_c04 x (snd fq) o1))
    end
  end.

(* every request is executed as somebody (user id 0 is "nobody") and - for the refinement - a
   store fault inside a delete request hits only its first call (TopicHist.fault_ok) *)
Definition oreq_ok_c04 (fq : fault * oreq_c04) : Prop :=
  match acting_c04 (snd fq) with
  | Some (_, u) => u <> 0%N
  | None => True
  end /\ fault_ok (fst fq) (q_op (snd fq)).
Definition ohist_ok_c04 (h : list (fault * oreq_c04)) : Prop := Forall oreq_ok_c04 h.

End Obo.
