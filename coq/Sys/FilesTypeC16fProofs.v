(* C16 (part f): lemmas about Sys/FilesTypeC16f.v *)
From Coq Require Import NArith ZArith List Bool Lia.
From Tinode Require Import Sys.Files Sys.FilesStoreProofs Sys.FilesTypeC16f.
Import ListNotations.

Lemma bytes_eqb_c16f_eq : forall a b, bytes_eqb_c16f a b = true <-> a = b.
Proof.
  induction a as [|x a IH]; intros [|y b]; cbn [bytes_eqb_c16f]; split; intros H;
    try reflexivity; try discriminate.
  - apply andb_true_iff in H. destruct H as [H1 H2]. apply N.eqb_eq in H1. apply IH in H2. subst. reflexivity.
  - inversion H; subst. rewrite N.eqb_refl. apply IH. reflexivity.
Qed.

Lemma bytes_eqb_c16f_neq : forall a b, a <> b -> bytes_eqb_c16f a b = false.
Proof.
  intros a b H. destruct (bytes_eqb_c16f a b) eqn:E; [|reflexivity].
  apply bytes_eqb_c16f_eq in E. contradiction.
Qed.

(* the loop over allowedMimeTypes: either the running value stays, or it becomes the non-empty
   formatted declared type and the parsed media type starts with one of the listed families *)
Lemma allowed_loop_c16f_char : forall l d m,
  (allowed_loop_c16f l d m = m /\
   ((forall a, In a l -> has_prefix a (d_media d) = false) \/ d_formatted d = [])) \/
  (allowed_loop_c16f l d m = d_formatted d /\ d_formatted d <> [] /\
   exists a, In a l /\ has_prefix a (d_media d) = true).
Proof.
  induction l as [|a l IH]; intros d m; cbn [allowed_loop_c16f].
  - left. split; [reflexivity|]. left. intros a [].
  - destruct (has_prefix a (d_media d)) eqn:Ea.
    + destruct (d_formatted d) as [|c r] eqn:Ef.
      * left. split; [reflexivity|]. right. reflexivity.
      * right. split; [reflexivity|]. split; [discriminate|]. exists a. split; [left; reflexivity|exact Ea].
    + destruct (IH d m) as [[H1 H2]|[H1 [H2 [b [Hb1 Hb2]]]]].
      * left. split; [exact H1|]. destruct H2 as [H2|H2]; [left|right; exact H2].
        intros b [Hb|Hb]; [subst; exact Ea|apply H2; exact Hb].
      * right. split; [exact H1|]. split; [exact H2|]. exists b. split; [right; exact Hb1|exact Hb2].
Qed.

Lemma stored_type_c16f_detected : forall sniff declared,
  sniff <> s_octet_c16f -> stored_type_c16f sniff declared = sniff.
Proof.
  intros sniff declared H. unfold stored_type_c16f. rewrite (bytes_eqb_c16f_neq _ _ H). reflexivity.
Qed.

Lemma stored_type_c16f_char : forall sniff declared,
  stored_type_c16f sniff declared = sniff \/
  (sniff = s_octet_c16f /\
   exists d, declared = Some d /\ stored_type_c16f sniff declared = d_formatted d /\ d_formatted d <> [] /\
     exists a, In a allowed_mime_types_c16f /\ has_prefix a (d_media d) = true).
Proof.
  intros sniff declared. unfold stored_type_c16f.
  destruct (bytes_eqb_c16f sniff s_octet_c16f) eqn:E; [|left; reflexivity].
  apply bytes_eqb_c16f_eq in E. destruct declared as [d|]; [|left; reflexivity].
  destruct (allowed_loop_c16f_char allowed_mime_types_c16f d sniff) as [[H _]|[H1 [H2 H3]]].
  - left. exact H.
  - right. split; [exact E|]. exists d. split; [reflexivity|]. split; [exact H1|]. split; [exact H2|exact H3].
Qed.

(* the declared type IS used for an undetectable body when it is usable *)
Lemma stored_type_c16f_undetectable : forall d a,
  In a allowed_mime_types_c16f -> has_prefix a (d_media d) = true -> d_formatted d <> [] ->
  stored_type_c16f s_octet_c16f (Some d) = d_formatted d.
Proof.
  intros d a Ha Hp Hf. unfold stored_type_c16f.
  replace (bytes_eqb_c16f s_octet_c16f s_octet_c16f) with true by (symmetry; apply bytes_eqb_c16f_eq; reflexivity).
  destruct (allowed_loop_c16f_char allowed_mime_types_c16f d s_octet_c16f) as [[_ [H|H]]|[H _]].
  - rewrite (H a Ha) in Hp. discriminate.
  - contradiction.
  - exact H.
Qed.

Lemma served_c16f_detected : forall asatt sniff declared,
  sniff <> s_octet_c16f ->
  served_c16f asatt sniff declared = (sniff, force_attachment asatt sniff).
Proof.
  intros asatt sniff declared H. unfold served_c16f. rewrite (stored_type_c16f_detected _ _ H). reflexivity.
Qed.

Lemma force_attachment_application_c16f : forall asatt m,
  has_prefix s_application m = true -> force_attachment asatt m = true.
Proof.
  intros asatt m H. unfold force_attachment. rewrite H. repeat rewrite orb_true_r. reflexivity.
Qed.

Lemma force_attachment_active_c16f : forall asatt m, active m = true -> force_attachment asatt m = true.
Proof.
  intros asatt m H. unfold active in H. unfold force_attachment.
  repeat (apply orb_true_iff in H; destruct H as [H|H]); rewrite H; repeat rewrite orb_true_r; reflexivity.
Qed.

Lemma served_c16f_active_forced : forall asatt sniff declared,
  active sniff = true -> sniff <> s_octet_c16f \/ declared = None ->
  served_c16f asatt sniff declared = (sniff, true).
Proof.
  intros asatt sniff declared Ha [H|H].
  - rewrite (served_c16f_detected _ _ _ H). rewrite (force_attachment_active_c16f _ _ Ha). reflexivity.
  - subst. unfold served_c16f, stored_type_c16f. destruct (bytes_eqb_c16f sniff s_octet_c16f);
      rewrite (force_attachment_active_c16f _ _ Ha); reflexivity.
Qed.

(* the wider fallback: content detected as application/pdf, declared image/png, is stored as
   image/png and served for display *)
Definition s_pdf_c16f : list N := [97; 112; 112; 108; 105; 99; 97; 116; 105; 111; 110; 47; 112; 100; 102]%N.
Definition s_png_c16f : list N := [105; 109; 97; 103; 101; 47; 112; 110; 103]%N.

Lemma stored_type_wide_c16f_witness :
  let d := {| d_media := s_png_c16f; d_formatted := s_png_c16f |} in
  has_prefix s_application s_pdf_c16f = true /\ s_pdf_c16f <> s_octet_c16f /\
  stored_type_wide_c16f s_pdf_c16f (Some d) = s_png_c16f /\
  force_attachment false (stored_type_wide_c16f s_pdf_c16f (Some d)) = false /\
  stored_type_c16f s_pdf_c16f (Some d) = s_pdf_c16f /\
  force_attachment false (stored_type_c16f s_pdf_c16f (Some d)) = true.
Proof.
  cbv zeta. split; [vm_compute; reflexivity|]. split; [discriminate|].
  repeat split; vm_compute; reflexivity.
Qed.

(* ------------------------------------------------------------------ *)
(* garbage-collection loop                                              *)

Lemma gc_cutoff_c16f_const : forall now p1 p2, gc_cutoff_c16f now p1 = gc_cutoff_c16f now p2.
Proof. reflexivity. Qed.

Lemma gc_cutoff_c16f_hour : forall now period, (now - gc_cutoff_c16f now period = hour_c16f)%Z.
Proof. intros. unfold gc_cutoff_c16f. lia. Qed.

Lemma gc_tick_period_c16f_range : forall period r p,
  (0 <= r < Z.shiftr period 1)%Z -> gc_tick_period_c16f period r = Some p ->
  (Z.shiftr period 1 + Z.shiftr period 2 <= p < 2 * Z.shiftr period 1 + Z.shiftr period 2)%Z.
Proof.
  intros period r p Hr H. unfold gc_tick_period_c16f in H.
  destruct (Z.shiftr period 1 <=? 0)%Z; [discriminate|]. inversion H; subst. lia.
Qed.

Lemma gc_tick_period_c16f_panics : forall period r, (period <= 1)%Z -> gc_tick_period_c16f period r = None.
Proof.
  intros period r H. unfold gc_tick_period_c16f.
  assert (Z.shiftr period 1 <= 0)%Z.
  { rewrite Z.shiftr_div_pow2 by lia. change (2 ^ 1)%Z with 2%Z.
    apply Z.lt_succ_r. apply Z.div_lt_upper_bound; lia. }
  apply Z.leb_le in H0. rewrite H0. reflexivity.
Qed.

(* one tick: a record that is not older than one hour stays, with its bytes, whatever the period,
   the block size and the link state *)
Lemma gc_tick_c16f_grace : forall s now period block f,
  inv_ids s -> In f (files s) -> (now - hour_c16f <= f_upd f)%Z ->
  In f (files (gc_tick_c16f s now period block)) /\
  (In (f_id f) (disk s) -> In (f_id f) (disk (gc_tick_c16f s now period block))).
Proof.
  intros s now period block f Hnd Hin Hyoung. unfold gc_tick_c16f.
  destruct (gc_exact_step s (Some (gc_cutoff_c16f now period)) block Hnd)
    as [H1 [_ [H3 [_ [_ [_ [_ [H8 _]]]]]]]].
  assert (Hnot : forall g, In g (gc_removed s (Some (gc_cutoff_c16f now period)) block) -> f_id g <> f_id f).
  { intros g Hg Heq. destruct (H3 g Hg) as [Hgin [_ Ho]].
    assert (g = f) by (apply (NoDup_map_inj _ _ f_id (files s)); assumption). subst g.
    unfold gc_older_ok, gc_cutoff_c16f in Ho. apply Z.ltb_lt in Ho. lia. }
  split.
  - apply H1; [exact Hin|]. intros Hr. apply (Hnot f Hr). reflexivity.
  - intros Hd. apply H8; [exact Hd|]. unfold gc_deleted_locations. intros Hm.
    apply in_map_iff in Hm. destruct Hm as [g [Hg1 Hg2]]. apply (Hnot g Hg2 Hg1).
Qed.

(* one tick removes exactly what DeleteUnused(now - 1h, block) removes *)
Lemma gc_tick_c16f_eq : forall s now period block,
  gc_tick_c16f s now period block = step s (OGC (Some (now - hour_c16f)%Z) block).
Proof. reflexivity. Qed.

(* a cut-off taken from the period: with a period below one hour a young unlinked upload is collected *)
Lemma gc_cutoff_by_period_c16f_witness :
  let s := run [OStart 5 0 []; OFinish 5 true 0] in
  let now := 120000000000%Z in let period := 60000000000%Z in
  file_ids s = [5%N] /\
  file_ids (step s (OGC (Some (gc_cutoff_by_period_c16f now period)) 100)) = [] /\
  file_ids (gc_tick_c16f s now period 100) = [5%N].
Proof. vm_compute. repeat split; reflexivity. Qed.
