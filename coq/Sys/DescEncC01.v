(* C01: the message number a client reads off a server frame in each of the two wire encodings.
   JSON (server/datamodel.go): MsgServerData.SeqId `json:"seq"`, MsgTopicDesc.SeqId `json:"seq,omitempty"`
   (an omitted member reads as 0), MsgServerCtrl.Params["seq"] - Go ints written in full.
   Protobuf (server/pbconverter.go, gRPC clients):
     pbServDataSerialize:   SeqId: int32(data.SeqId)
     pbTopicDescSerialize:  SeqId: int32(desc.SeqId)
     pbServCtrlSerialize:   Params: every value json.Marshal-ed, the number written in full.
   int32(x) of a Go int keeps the low 32 bits (two's complement).

   Definitions only.  Proofs are in Sys/DescEncC01Proofs.v. *)
From Coq Require Import ZArith NArith List Bool.
From Tinode Require Import Base.Util Pure.Acs Sys.Topic.
Import ListNotations.
Open Scope Z_scope.

(* Go's int32(x) for an int x *)
Definition int32_c01e (z : Z) : Z := (z + 2147483648) mod 4294967296 - 2147483648.

Inductive enc_c01e := EncJSON | EncPB.

Definition enc_num_c01e (e : enc_c01e) (seq : Z) : Z :=
  match e with EncJSON => seq | EncPB => int32_c01e seq end.

(* the message number shown by a frame in an encoding: {data}, {meta desc}, the 202 acknowledgement of a {pub} *)
Definition shown_num_c01e (e : enc_c01e) (fr : frame) : option Z :=
  match fr with
  | Data seq _ _ => Some (enc_num_c01e e seq)
  | MetaDesc _ _ seq _ _ _ _ => Some (enc_num_c01e e seq)
  | Ctrl code params =>
    if code =? 202 then
      match alookup P_seq params with
      | Some seq => Some seq
      | None => None
      end
    else None
  | _ => None
  end.

(* the frame's number fits the protobuf field *)
Definition fits_int32_c01e (fr : frame) : bool :=
  match shown_num_c01e EncJSON fr with
  | Some n => (-2147483648 <=? n) && (n <? 2147483648)
  | None => true
  end.
