(* C20 part B: protobuf <-> JSON equivalence of client requests and server replies,
   table-driven (definitions only; proofs in PbTableProofs.v).

   A message is a finite list of LEAVES: (path, typed value).  A path is a schema
   path (JSON names joined by '.', "[]" after a list, "{}" after a map) plus the list
   positions / map keys that fill the markers.  Zero values are absent.

   The converters of server/pbconverter.go are abstracted by a TABLE that the
   reflection prober (harness/overlay/server/zz_verif_c20pb_test.go) regenerates from
   the current build on every run (coq/Gen/GenPb.v): one row per leaf of the Go
   message types with the leaf's kind and its FATE under the converters.  [ser] and
   [deser] are the table-driven converters: every leaf is converted on its own,
   by the wire transformation of its kind (int -> int32, time -> milliseconds,
   enum spelling -> enum number, JSON blob -> bytes).

   Documented normalisation [norm] ("=norm"): ints are taken modulo 2^32 into the int32
   range, times are truncated to whole milliseconds and exist only after the epoch,
   enum spellings are compared in upper case and the spelling of the enum's zero value
   is the same as absence, false/zero is absence.  JSON blobs are canonical texts
   (canonicalised by the flattener with encoding/json itself). *)
From Coq Require Import List String Ascii ZArith NArith Bool.
Import ListNotations.
Local Open Scope Z_scope.

Definition spath := string.
Inductive idx := IN (n : N) | IK (k : string).
Definition path := (spath * list idx)%type.

(* enum conversion tables as probed: JSON spelling -> number (serializer),
   number -> spelling (deserializer), spelling the deserializer gives to number 0 *)
Record enum_tab := { e_ser : list (string * Z); e_deser : list (Z * string); e_zero : string }.

Inductive kind := KStr | KInt | KBool | KBytes | KTime | KJson | KPresent | KEnum (e : enum_tab).
Inductive xform := XInt32 | XMs | XEnum | XOther.
Inductive fate := Same | Dropped | Moved (p : spath) | Transformed (x : xform) | Panics | NoSchema.

Inductive leaf := LStr (s : string) | LInt (z : Z) | LBool (b : bool) | LBytes (s : string)
                | LTime (ns : Z) | LJson (s : string) | LPresent.
Inductive wleaf := WStr (s : string) | WInt (z : Z) | WBool (b : bool) | WBytes (s : string)
                 | WEnum (n : Z) | WPresent.

Definition msg := list (path * leaf).
Definition wire := list (path * wleaf).

(* client table: the wire is keyed by the Go/JSON paths (the protobuf field names are
   a renaming found by the prober and kept as a comment in GenPb.v) *)
Definition table := list (spath * kind * fate).
(* server table: JSON path, kind, protobuf path, fate *)
Definition stable := list (spath * kind * spath * fate).

Fixpoint find_row (t : table) (sp : spath) : option (kind * fate) :=
  match t with
  | [] => None
  | (p, k, f) :: r => if String.eqb p sp then Some (k, f) else find_row r sp
  end.

Fixpoint find_srow (t : stable) (sp : spath) : option (kind * spath * fate) :=
  match t with
  | [] => None
  | (p, k, q, f) :: r => if String.eqb p sp then Some (k, q, f) else find_srow r sp
  end.

(* the server row whose protobuf path is q *)
Fixpoint find_swire (t : stable) (q : spath) : option (spath * kind * fate) :=
  match t with
  | [] => None
  | (p, k, q', f) :: r => if String.eqb q' q then Some (p, k, f) else find_swire r q
  end.

(* ---------- leaf kinds ---------- *)

Definition wrap32 (z : Z) : Z := (z + 2147483648) mod 4294967296 - 2147483648.
Definition in_int32 (z : Z) : bool := (-2147483648 <=? z) && (z <=? 2147483647).

Definition ms_of_ns (ns : Z) : Z := Z.quot ns 1000000.      (* Go: UnixNano() / int64(time.Millisecond) *)
Definition ns_of_ms (ms : Z) : Z := ms * 1000000.

Definition upper_ascii (c : ascii) : ascii :=
  let n := N_of_ascii c in
  if (N.leb 97 n && N.leb n 122)%bool then ascii_of_N (n - 32) else c.
Fixpoint upper (s : string) : string :=
  match s with EmptyString => EmptyString | String c r => String (upper_ascii c) (upper r) end.

Fixpoint enum_ser_l (l : list (string * Z)) (s : string) : Z :=
  match l with [] => 0 | (s', n) :: r => if String.eqb s' s then n else enum_ser_l r s end.
Definition enum_ser (e : enum_tab) (s : string) : Z := enum_ser_l (e_ser e) s.

Fixpoint enum_deser_l (l : list (Z * string)) (n : Z) : option string :=
  match l with [] => None | (n', s) :: r => if Z.eqb n' n then Some s else enum_deser_l r n end.
Definition enum_deser (e : enum_tab) (n : Z) : option string := enum_deser_l (e_deser e) n.

(* canonical spelling of an enum value; None = the zero value = absent *)
Definition norm_enum (e : enum_tab) (s : string) : option string :=
  let u := upper s in
  if (String.eqb u (upper (e_zero e)) || String.eqb u EmptyString)%bool then None else Some u.

(* Go value -> protobuf value; None = the protobuf default, not on the wire *)
Definition fwd (k : kind) (v : leaf) : option wleaf :=
  match k, v with
  | KStr, LStr s => Some (WStr s)
  | KInt, LInt z => let w := wrap32 z in if w =? 0 then None else Some (WInt w)
  | KBool, LBool b => if b then Some (WBool true) else None
  | KBytes, LBytes s => Some (WBytes s)
  | KJson, LJson s => Some (WBytes s)
  | KTime, LTime ns => let ms := ms_of_ns ns in if ms =? 0 then None else Some (WInt ms)
  | KEnum e, LStr s => let n := enum_ser e s in if n =? 0 then None else Some (WEnum n)
  | KPresent, LPresent => Some WPresent
  | _, _ => None
  end.

(* protobuf value -> Go value; None = Go zero value / nil *)
Definition bwd (k : kind) (w : wleaf) : option leaf :=
  match k, w with
  | KStr, WStr s => Some (LStr s)
  | KInt, WInt z => Some (LInt z)
  | KBool, WBool b => Some (LBool b)
  | KBytes, WBytes s => Some (LBytes s)
  | KJson, WBytes s => Some (LJson s)
  | KTime, WInt ms => if 0 <? ms then Some (LTime (ns_of_ms ms)) else None   (* int64ToTime: nil unless ts > 0 *)
  | KEnum e, WEnum n => match enum_deser e n with Some s => Some (LStr s) | None => None end
  | KPresent, WPresent => Some LPresent
  | _, _ => None
  end.

(* the documented normalisation of one leaf; None = absent *)
Definition norm (k : kind) (v : leaf) : option leaf :=
  match k, v with
  | KStr, LStr s => Some (LStr s)
  | KInt, LInt z => let w := wrap32 z in if w =? 0 then None else Some (LInt w)
  | KBool, LBool b => if b then Some (LBool true) else None
  | KBytes, LBytes s => Some (LBytes s)
  | KJson, LJson s => Some (LJson s)
  | KTime, LTime ns => let ms := ms_of_ns ns in if 0 <? ms then Some (LTime (ns_of_ms ms)) else None
  | KEnum e, LStr s => match norm_enum e s with Some u => Some (LStr u) | None => None end
  | KPresent, LPresent => Some LPresent
  | _, _ => None
  end.

Definition obind {A B} (o : option A) (f : A -> option B) : option B :=
  match o with Some a => f a | None => None end.

Definition opt_list {A B} (p : A) (o : option B) : list (A * B) :=
  match o with Some b => [(p, b)] | None => [] end.

(* ---------- table-driven converters: client requests ---------- *)

Definition ser1 (t : table) (x : path * leaf) : wire :=
  let '(p, v) := x in
  match find_row t (fst p) with
  | Some (k, Same) | Some (k, Transformed _) => opt_list p (fwd k v)
  | Some (k, Moved q) => opt_list (q, snd p) (fwd k v)
  | _ => []
  end.
Definition ser (t : table) (m : msg) : wire := flat_map (ser1 t) m.

Definition deser1 (t : table) (x : path * wleaf) : msg :=
  let '(p, w) := x in
  match find_row t (fst p) with
  | Some (k, _) => opt_list p (bwd k w)
  | None => []
  end.
Definition deser (t : table) (w : wire) : msg := flat_map (deser1 t) w.

Definition norm1 (t : table) (x : path * leaf) : msg :=
  let '(p, v) := x in
  match find_row t (fst p) with
  | Some (k, _) => opt_list p (norm k v)
  | None => []
  end.
Definition norm_msg (t : table) (m : msg) : msg := flat_map (norm1 t) m.

(* what the gRPC path makes of one leaf of a request *)
Definition rt_leaf (t : table) (x : path * leaf) : msg := deser t (ser1 t x).

(* a request containing a leaf of fate Panics crashes the converter *)
Definition panics (t : table) (m : msg) : bool :=
  existsb (fun x : path * leaf => match find_row t (fst (fst x)) with Some (_, Panics) => true | _ => false end) m.

(* ---------- well-formedness ---------- *)

Definition opt_string_eqb (a b : option string) : bool :=
  match a, b with
  | Some x, Some y => String.eqb x y
  | None, None => true
  | _, _ => false
  end.

(* every spelling the serializer knows comes back as a spelling with the same normal form *)
Definition enum_rt_ok (e : enum_tab) : bool :=
  forallb (fun x : string * Z =>
    let s := fst x in
    let n := enum_ser e s in
    if n =? 0 then opt_string_eqb (norm_enum e s) None
    else match enum_deser e n with
         | Some s' => opt_string_eqb (norm_enum e s') (norm_enum e s)
         | None => opt_string_eqb (norm_enum e s) None
         end) (e_ser e).

(* the tables are mutually inverse on their domain: every number the deserializer knows
   (except 0) is what the serializer makes of its spelling, and reads back as that spelling *)
Definition enum_bij (e : enum_tab) : bool :=
  forallb (fun x : Z * string =>
    let '(n, s) := x in
    (n =? 0) || ((enum_ser e s =? n) && opt_string_eqb (enum_deser e n) (Some s) && in_int32 n))%bool
    (e_deser e).

Definition enum_ok (e : enum_tab) : bool := (enum_rt_ok e && enum_bij e)%bool.

Definition kind_ok (k : kind) : bool := match k with KEnum e => enum_ok e | _ => true end.

Definition fate_ok (k : kind) (f : fate) : bool :=
  match f, k with
  | Same, _ => true
  | Transformed XInt32, KInt => true
  | Transformed XMs, KTime => true
  | Transformed XEnum, KEnum _ => true
  | _, _ => false
  end.

Definition row_ok (r : spath * kind * fate) : bool :=
  let '(_, k, f) := r in (fate_ok k f && kind_ok k)%bool.

(* every leaf of the schema is Same or a documented transformation: none Dropped, Moved, Panics, NoSchema *)
Definition table_ok (t : table) : bool := forallb row_ok t.
Definition bad_rows (t : table) : list (spath * fate) :=
  map (fun r : spath * kind * fate => (fst (fst r), snd r)) (filter (fun r => negb (row_ok r)) t).

(* one leaf is safe whatever the other rows are *)
Definition leaf_ok (t : table) (sp : spath) : bool :=
  match find_row t sp with Some (k, f) => (fate_ok k f && kind_ok k)%bool | None => false end.

(* enum leaves carry a spelling of the enum's domain (anything else is an invalid request in
   both encodings: JSON keeps the text, protobuf cannot express it) *)
Definition wf_leaf (k : kind) (v : leaf) : bool :=
  match k, v with
  | KEnum e, LStr s => existsb (fun x : string * Z => String.eqb (fst x) s) (e_ser e)
  | KEnum e, _ => false
  | _, _ => true
  end.
Definition wf_leaf_t (t : table) (x : path * leaf) : bool :=
  match find_row t (fst (fst x)) with Some (k, _) => wf_leaf k (snd x) | None => true end.
Definition wf_msg (t : table) (m : msg) : bool := forallb (wf_leaf_t t) m.

(* ---------- server replies ---------- *)

Definition in_schema_f (f : fate) : bool := match f with NoSchema => false | _ => true end.

Definition ser_srv1 (t : stable) (x : path * leaf) : wire :=
  let '(p, v) := x in
  match find_srow t (fst p) with
  | Some (k, q, Same) | Some (k, q, Transformed _) => opt_list (q, snd p) (fwd k v)
  | _ => []
  end.
Definition ser_srv (t : stable) (m : msg) : wire := flat_map (ser_srv1 t) m.

(* the reading of a protobuf reply in JSON terms *)
Definition deser_srv1 (t : stable) (x : path * wleaf) : msg :=
  let '(q, w) := x in
  match find_swire t (fst q) with
  | Some (p, _, _) =>
      match find_srow t p with
      | Some (k, q', f) =>
          if (in_schema_f f && String.eqb q' (fst q))%bool
          then opt_list (p, snd q) (obind (bwd k w) (norm k)) else []
      | None => []
      end
  | None => []
  end.
Definition deser_srv (t : stable) (w : wire) : msg := flat_map (deser_srv1 t) w.

(* the normalised JSON rendering restricted to the fields the schema defines *)
Definition norm_srv1 (t : stable) (x : path * leaf) : msg :=
  let '(p, v) := x in
  match find_srow t (fst p) with
  | Some (k, _, f) => if in_schema_f f then opt_list p (norm k v) else []
  | None => []
  end.
Definition norm_srv (t : stable) (m : msg) : msg := flat_map (norm_srv1 t) m.

Definition srow_ok (r : spath * kind * spath * fate) : bool :=
  let '(_, k, _, f) := r in
  match f with NoSchema => true | _ => (fate_ok k f && kind_ok k)%bool end.

(* the protobuf paths of the in-schema rows are pairwise distinct and each finds its own row *)
Definition swire_ok (t : stable) : bool :=
  forallb (fun r : spath * kind * spath * fate =>
    let '(p, k, q, f) := r in
    match f with
    | Same | Transformed _ => match find_swire t q with Some (p', _, _) => String.eqb p' p | None => false end
    | _ => true
    end) t.

Definition table_ok_srv (t : stable) : bool := (forallb srow_ok t && swire_ok t)%bool.
Definition bad_srows (t : stable) : list (spath * fate) :=
  map (fun r : spath * kind * spath * fate => (fst (fst (fst r)), snd r)) (filter (fun r => negb (srow_ok r)) t).

Definition wf_sleaf_t (t : stable) (x : path * leaf) : bool :=
  match find_srow t (fst (fst x)) with Some (k, _, _) => wf_leaf k (snd x) | None => true end.
Definition wf_smsg (t : stable) (m : msg) : bool := forallb (wf_sleaf_t t) m.
