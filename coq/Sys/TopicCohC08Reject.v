(* C08: a request that is rejected (answered 4xx/5xx) changes neither the store nor the
   cache, in the absence of store faults and except for the banned-subscriber case (finding #4). *)
From Coq Require Import ZArith NArith List Bool Lia.
From Tinode Require Import Base.Util Pure.Acs Sys.Topic Sys.TopicTac Sys.TopicFrame Sys.TopicCohC08 Sys.TopicCohC08Proofs Sys.TopicCohC08Step.
Import ListNotations.
Open Scope Z_scope.

(* no error reply to anybody in this output *)
Definition no_err (o : out) : Prop := forall sid code ps, In (sid, Ctrl code ps) o -> code < 400.

Lemma no_err_nil : no_err []. Proof. intros sid code ps []. Qed.
Lemma no_err_app a b : no_err a -> no_err b -> no_err (a ++ b).
Proof. intros A B sid code ps H. apply in_app_or in H. destruct H; [eapply A|eapply B]; eassumption. Qed.
Lemma no_err_cons sid fr o : (forall code ps, fr = Ctrl code ps -> code < 400) -> no_err o -> no_err ((sid, fr) :: o).
Proof. intros A B s code ps [H|H]; [inv H; eapply A; reflexivity|eapply B; exact H]. Qed.
Lemma no_err_flat {A} (g : A -> out) l : (forall x, no_err (g x)) -> no_err (flat_map g l).
Proof. intros H sid code ps Hin. apply in_flat_map in Hin. destruct Hin as [x [_ Hx]]. eapply H; exact Hx. Qed.

Lemma no_err_fanout_data c skip fr : (forall code ps, fr = Ctrl code ps -> code < 400) -> no_err (fanout_data c skip fr).
Proof.
  intros F. unfold fanout_data. apply no_err_flat. intros [sid [u b]].
  repeat break_match; try apply no_err_nil. apply no_err_cons; [exact F|apply no_err_nil].
Qed.
Lemma no_err_fanout_info c skip what from seq : no_err (fanout_info c skip what from seq).
Proof.
  unfold fanout_info. apply no_err_flat. intros [sid [u b]].
  repeat break_match; try apply no_err_nil. apply no_err_cons; [discriminate|apply no_err_nil].
Qed.
Lemma no_err_push c seq u : no_err (push_out c seq u).
Proof. unfold push_out. break_match; [apply no_err_nil|]. apply no_err_cons; [discriminate|apply no_err_nil]. Qed.
Lemma no_err_evict c u unsub k c' o : evict_user c u unsub k = (c', o) -> no_err o.
Proof.
  unfold evict_user. intros H. inv H. apply no_err_flat. intros e. break_match; [apply no_err_nil|].
  apply no_err_cons; [discriminate|apply no_err_nil].
Qed.
Lemma no_err_map_data sid (ms : list msgrow) : no_err (map (fun m => (sid, Data (m_seq m) (m_from m) (m_content m))) ms).
Proof. intros s code ps H. apply in_map_iff in H. destruct H as [m [E _]]. discriminate. Qed.

Ltac ne_tac :=
  repeat first [ apply no_err_nil | apply no_err_app | apply no_err_fanout_data | apply no_err_fanout_info | apply no_err_push
               | apply no_err_map_data
               | (apply no_err_cons; [intros code ps E; first [discriminate E | inv E; lia]|])
               | (eapply no_err_evict; eassumption) ];
  try (intros code ps E; first [discriminate E | inv E; lia]).

(* a handler result: either nothing changed, or nobody got an error *)
Definition rej (s : store) (c : cache) (h : hres) : Prop := (h_st h = s /\ h_ca h = c) \/ no_err (h_out h).

Lemma publish_rej s c n sid u content noecho :
  (forall m, In m (seqs s) -> m <= c_lastid c) -> rej s c (publish NoFault s c n sid u content noecho).
Proof.
  intros FR. unfold publish, call; cbn [fails negb].
  rewrite msg_save_fresh by (intros m Hm; cbn in Hm; specialize (FR m Hm); lia).
  repeat break_match; unfold rej; cbn [h_st h_ca h_out]; try (left; split; reflexivity); right; ne_tac.
Qed.

Lemma note_rej s c n sid u what seq : rej s c (note NoFault s c n sid u what seq).
Proof.
  unfold note, call; cbn [fails negb].
  repeat break_match; unfold rej; cbn [h_st h_ca h_out]; try (left; split; reflexivity); right; ne_tac.
Qed.
Lemma get_data_rej s c n sid u a b l : rej s c (get_data NoFault s c n sid u a b l).
Proof. left. apply get_data_same. Qed.
Lemma get_desc_rej s c n sid u : rej s c (get_desc s c n sid u).
Proof. left. apply get_desc_same. Qed.
Lemma get_sub_rej s c n sid u : rej s c (get_sub NoFault s c n sid u).
Proof. left. apply get_sub_same. Qed.
Lemma get_del_rej nr s c n sid u a b l : rej s c (get_del nr NoFault s c n sid u a b l).
Proof. left. apply get_del_same. Qed.
Lemma del_msg_rej dr s c n sid u req hard : rej s c (del_msg dr NoFault s c n sid u req hard).
Proof.
  unfold del_msg, call; cbn [fails negb].
  repeat break_match; unfold rej; cbn [h_st h_ca h_out]; try (left; split; reflexivity); right; ne_tac.
Qed.
Lemma del_sub_rej s c n sid u t : rej s c (del_sub NoFault s c n sid u t).
Proof.
  unfold del_sub, call; cbn [fails negb].
  repeat break_match; unfold rej; cbn [h_st h_ca h_out]; try (left; split; reflexivity); right;
    repeat match goal with H : (_, _) = (_, _) |- _ => inv H end; ne_tac.
  destruct (ad_subs_delete s t); inv Heqp0; ne_tac.
Qed.
Lemma leave_unsub_rej s c n sid u : rej s c (leave_unsub NoFault s c n sid u).
Proof.
  unfold leave_unsub, call; cbn [fails negb].
  repeat break_match; unfold rej; cbn [h_st h_ca h_out]; try (left; split; reflexivity); right; ne_tac.
Qed.

Lemma is_joiner_lor a b : is_joiner (N.lor a b) = is_joiner a || is_joiner b.
Proof.
  unfold is_joiner, has, mJ.
  assert (forall x, negb (N.land x 1 =? 0)%N = N.testbit x 0) as T.
  { intros x. destruct (N.testbit x 0) eqn:B.
    - apply negb_true_iff, N.eqb_neq. intros E.
      assert (N.testbit (N.land x 1) 0 = true) as X by (rewrite N.land_spec, B; reflexivity). rewrite E in X. discriminate.
    - apply negb_false_iff, N.eqb_eq. apply N.bits_inj. intros n. rewrite N.land_spec, N.bits_0.
      destruct (N.eq_dec n 0) as [->|NE]; [rewrite B; reflexivity|].
      replace (N.testbit 1 n) with false; [apply andb_false_r|]. symmetry. change 1%N with (2 ^ 0)%N. apply N.pow2_bits_false. congruence. }
  rewrite !T. apply N.lor_spec.
Qed.

Lemma chk_joiner c u mw p0 mw1 g1 oc :
  tus_chk c u mw p0 = Some (mw1, g1, oc) -> is_joiner g1 = false -> is_joiner (p_given p0) = false.
Proof.
  unfold tus_chk. intros H J. repeat break_match_hyp; inv H; try exact J;
    rewrite is_joiner_lor in J; apply orb_false_iff in J; apply J.
Qed.

Definition tus_rej (s : store) (c : cache) (u : N) (hr : hres * sub_res) : Prop :=
  no_err (h_out (fst hr)) /\
  match snd hr with
  | SubErr _ => (h_st (fst hr) = s /\ h_ca (fst hr) = c) \/ (exists p, alookup u (c_users c) = Some p /\ is_joiner (p_given p) = false)
  | SubOk _ => True
  end.

Lemma tus_finish_rej u nb w1 g1 ow og s3 c3 n3 :
  no_err (h_out (fst (tus_finish u nb w1 g1 ow og s3 c3 n3))) /\
  (forall code, snd (tus_finish u nb w1 g1 ow og s3 c3 n3) = SubErr code -> is_joiner g1 = false).
Proof.
  unfold tus_finish. destruct (negb (is_joiner w1)).
  - destruct (evict_user _ u false 0) as [c5 o5] eqn:HE. cbn [fst snd h_out]. split; [eapply no_err_evict; exact HE|discriminate].
  - destruct (negb (is_joiner g1)) eqn:J; cbn [fst snd h_out]; split; try apply no_err_nil; try discriminate.
    intros _ _. now apply negb_true_iff in J.
Qed.

Lemma this_user_sub_rej s c n sid u want nb : tus_rej s c u (this_user_sub NoFault s c n sid u want nb).
Proof.
  rewrite tus_unfold.
  destruct (match want with [] => (ModeUnset, true) | _ => unmarshal_text ModeUnset want end) as [mw okw].
  destruct (negb okw); [split; [apply no_err_nil|left; split; reflexivity]|].
  destruct (alookup u (c_users c)) as [p0|] eqn:L.
  - unfold tus_existing. destruct (tus_chk c u mw p0) as [[[mw1 g1] oc]|] eqn:CHK; [|split; [apply no_err_nil|left; split; reflexivity]].
    unfold call; cbn [fails negb].
    assert (forall (b : bool) (m : nat), (if b then (true, S m) else (true, m)) = (true, if b then S m else m)) as EB by (intros [] m; reflexivity).
    rewrite EB. cbn [negb].
    destruct oc.
    + match goal with |- tus_rej _ _ _ (tus_finish ?a ?b ?w ?g ?ow ?og ?s3 ?c3 ?n3) =>
        destruct (tus_finish_rej a b w g ow og s3 c3 n3) as [NE SE]; split; [exact NE|] end.
      cbn [fst snd]; match goal with |- match snd ?X with SubErr _ => _ | SubOk _ => _ end => destruct (snd X) eqn:R end; [|exact I].
      right. exists p0. split; [exact L|]. eapply chk_joiner; [exact CHK|]. eapply SE. reflexivity.
    + match goal with |- tus_rej _ _ _ (tus_finish ?a ?b ?w ?g ?ow ?og ?s3 ?c3 ?n3) =>
        destruct (tus_finish_rej a b w g ow og s3 c3 n3) as [NE SE]; split; [exact NE|] end.
      cbn [fst snd]; match goal with |- match snd ?X with SubErr _ => _ | SubOk _ => _ end => destruct (snd X) eqn:R end; [|exact I].
      right. exists p0. split; [exact L|]. eapply chk_joiner; [exact CHK|]. eapply SE. reflexivity.
  - unfold tus_new, call; cbn [fails negb].
    repeat break_match; unfold tus_rej; cbn [fst snd h_out h_st h_ca]; split;
      try apply no_err_nil; try (eapply no_err_evict; eassumption); try exact I; try (left; split; reflexivity).
Qed.

Lemma another_user_sub_rej s c n sid u target mode :
  no_err (h_out (fst (another_user_sub NoFault s c n sid u target mode))) /\
  (forall code, snd (another_user_sub NoFault s c n sid u target mode) = SubErr code ->
     h_st (fst (another_user_sub NoFault s c n sid u target mode)) = s /\ h_ca (fst (another_user_sub NoFault s c n sid u target mode)) = c).
Proof.
  split.
  - unfold another_user_sub, call; cbn [fails negb].
    repeat break_match; cbn [fst h_out]; try apply no_err_nil; eapply no_err_evict; eassumption.
  - unfold another_user_sub, call; cbn [fails negb].
    repeat break_match; cbn [fst snd h_st h_ca]; intros code H; try discriminate H; split; reflexivity.
Qed.

Lemma offline_set_sub_rej s sid u target mode :
  o_st (offline_set_sub NoFault s sid u target mode) = s \/ no_err (o_out (offline_set_sub NoFault s sid u target mode)).
Proof.
  unfold offline_set_sub, call; cbn [fails negb].
  repeat break_match; cbn [o_st o_out]; try (left; reflexivity). right. ne_tac.
Qed.

Section RejectStep.
Variable dr : Z -> list (Z * Z) -> option (list (Z * Z)).
Variable nr : list (Z * Z) -> list (Z * Z).
Variable sm : sessmap.

Definition unchanged (x x' : state) : Prop :=
  st x' = st x /\ (ca x' = ca x \/ (ca x = None /\ ca x' = Some (load (st x)))).

Lemma err_no_err o sid : err_reply o sid -> no_err o -> False.
Proof. intros [code [ps [HIn Hc]]] NE. specialize (NE _ _ _ HIn). lia. Qed.

Lemma err_app_inv a sid fr :
  err_reply (a ++ [(sid, fr)]) sid -> no_err a -> exists code ps, fr = Ctrl code ps /\ 400 <= code.
Proof.
  intros [code [ps [HIn Hc]]] NE. apply in_app_or in HIn. destruct HIn as [HIn|[HIn|[]]].
  - specialize (NE _ _ _ HIn). lia.
  - inv HIn. eauto.
Qed.

(* the reply of {sub}: rejected => nothing changed, unless the subscriber is banned *)
Lemma sub_reply_rej s c n sid u want bkg :
  err_reply (h_out (sub_reply NoFault s c n sid u want bkg)) sid ->
  (h_st (sub_reply NoFault s c n sid u want bkg) = s /\ h_ca (sub_reply NoFault s c n sid u want bkg) = c) \/
  (exists p, alookup u (c_users c) = Some p /\ is_joiner (p_given p) = false).
Proof.
  unfold sub_reply.
  pose proof (this_user_sub_rej s c n sid u want (match alookup u (c_users c) with Some _ => false | None => true end)) as [NE R].
  destruct (this_user_sub NoFault s c n sid u want _) as [h r]. cbn [fst snd] in *.
  destruct r as [code|ch]; cbn [h_st h_ca h_out].
  - intros _. exact R.
  - intros ER. exfalso. apply err_app_inv in ER; [|exact NE]. destruct ER as [code [ps [E Hc]]].
    destruct ch as [[w g]|]; inv E. lia.
Qed.

Lemma set_sub_rej s c n sid u target mode :
  err_reply (h_out (set_sub NoFault s c n sid u target mode)) sid ->
  (h_st (set_sub NoFault s c n sid u target mode) = s /\ h_ca (set_sub NoFault s c n sid u target mode) = c) \/
  (exists p, alookup u (c_users c) = Some p /\ is_joiner (p_given p) = false).
Proof.
  unfold set_sub. destruct ((target =? 0)%N || (target =? u)%N).
  - pose proof (this_user_sub_rej s c n sid u mode false) as [NE R].
    destruct (this_user_sub NoFault s c n sid u mode false) as [h r]. cbn [fst snd] in *.
    destruct r as [code|ch]; cbn [h_st h_ca h_out].
    + intros _. exact R.
    + intros ER. exfalso. apply err_app_inv in ER; [|exact NE]. destruct ER as [code [ps [E Hc]]].
      destruct ch as [[w g]|]; inv E. lia.
  - pose proof (another_user_sub_rej s c n sid u target mode) as [NE R].
    destruct (another_user_sub NoFault s c n sid u target mode) as [h r]. cbn [fst snd] in *.
    destruct r as [code|ch]; cbn [h_st h_ca h_out].
    + intros _. left. apply (R code eq_refl).
    + intros ER. exfalso. apply err_app_inv in ER; [|exact NE]. destruct ER as [code [ps [E Hc]]].
      destruct ch as [[w g]|]; inv E. lia.
Qed.

Ltac unch :=
  unfold unchanged; cbn [st ca];
  repeat match goal with
         | E : h_st _ = _ |- _ => rewrite E
         | E : h_ca _ = _ |- _ => rewrite E
         end;
  repeat match goal with CA : ca _ = _ |- _ => rewrite ?CA; clear CA end;
  split; [reflexivity|first [left; reflexivity|right; split; reflexivity]].
Ltac rej_fin R ER :=
  destruct R as [[E1 E2]|NE]; [unch|exfalso; exact (err_no_err _ _ ER NE)].

Lemma step_reject x o :
  (match ca x with Some c => forall m, In m (seqs (st x)) -> m <= c_lastid c | None => True end) ->
  ~ trig_banned sm x o ->
  err_reply (snd (step dr nr sm NoFault x o)) (op_sid o) ->
  unchanged x (fst (step dr nr sm NoFault x o)).
Proof.
  intros FR NB.
  destruct o as [sid want bkg|sid unsub|sid content noecho|sid what seq|sid a b l|sid|sid|sid a b l|sid req hard|sid target mode|sid target| |];
    cbn [op_sid]; unfold step.
  - (* OSub *)
    destruct (ca x) as [c|] eqn:CA.
    + destruct (attached c sid); cbn [fst snd]; [intros _; unch|].
      intros ER. destruct (sub_reply_rej _ _ _ _ _ _ _ ER) as [[E1 E2]|[p [L J]]].
      * unch.
      * exfalso. apply NB. unfold trig_banned, cur_cache. rewrite CA, L. exact J.
    + unfold try_load, call; cbn [fails negb].
      destruct (t_exists (st x)); cbn [negb fst snd]; [|intros _; unch].
      intros ER. destruct (sub_reply_rej _ _ _ _ _ _ _ ER) as [[E1 E2]|[p [L J]]].
      * unch.
      * exfalso. apply NB. unfold trig_banned, cur_cache. rewrite CA, L. exact J.
  - (* OLeave *)
    destruct (ca x) as [c|] eqn:CA; cbn -[leave_unsub leave]; [|intros _; unch].
    destruct (attached c sid); cbn -[leave_unsub leave]; [|intros _; unch].
    destruct unsub.
    + intros ER. pose proof (leave_unsub_rej (st x) c 0 sid (match alookup sid (c_sess c) with Some (a, _) => a | None => sess_uid sm sid end)) as R.
      rej_fin R ER.
    + unfold leave. destruct (alookup sid (c_sess c)) as [[su bk]|]; cbn [fst snd h_out];
        intros ER; exfalso; (eapply err_no_err; [exact ER|]); ne_tac.
  - (* OPub *)
    destruct (ca x) as [c|] eqn:CA; cbn -[publish]; [|intros _; unch].
    destruct (attached c sid); cbn -[publish]; [|intros _; unch].
    intros ER. pose proof (publish_rej (st x) c 0 sid (sess_uid sm sid) content noecho FR) as R. rej_fin R ER.
  - (* ONote *)
    assert (forall c, ca x = Some c -> err_reply (h_out (note NoFault (st x) c 0 sid (sess_uid sm sid) what seq)) sid ->
              unchanged x (mkState (h_st (note NoFault (st x) c 0 sid (sess_uid sm sid) what seq))
                                   (Some (h_ca (note NoFault (st x) c 0 sid (sess_uid sm sid) what seq)))
                                   (h_n (note NoFault (st x) c 0 sid (sess_uid sm sid) what seq)))) as NG.
    { intros c CA ER. pose proof (note_rej (st x) c 0 sid (sess_uid sm sid) what seq) as R.
      destruct R as [[E1 E2]|NE]; [|exfalso; exact (err_no_err _ _ ER NE)].
      unch. }
    destruct (ca x) as [c|] eqn:CA; cbn -[note].
    + destruct (attached c sid); cbn -[note]; repeat break_match; cbn [fst snd]; intros ER;
        try (unch); apply NG; auto.
    + repeat break_match; cbn [fst snd]; intros ER; unch.
  - (* OGetData *)
    destruct (ca x) as [c|] eqn:CA; cbn -[get_data]; [|intros _; unch].
    destruct (attached c sid); cbn -[get_data]; [|intros _; unch].
    intros _. destruct (get_data_same NoFault (st x) c 0 sid (sess_uid sm sid) a b l) as [E1 E2].
    unch.
  - (* OGetDesc *)
    destruct (ca x) as [c|] eqn:CA; cbn -[get_desc offline_get_desc].
    + destruct (attached c sid); cbn -[get_desc offline_get_desc]; intros _.
      * destruct (get_desc_same (st x) c 0 sid (sess_uid sm sid)) as [E1 E2].
        unch.
      * rewrite offline_get_desc_frame. unch.
    + intros _. rewrite offline_get_desc_frame. unch.
  - (* OGetSub *)
    destruct (ca x) as [c|] eqn:CA; cbn -[get_sub offline_get_sub].
    + destruct (attached c sid); cbn -[get_sub offline_get_sub]; intros _.
      * destruct (get_sub_same NoFault (st x) c 0 sid (sess_uid sm sid)) as [E1 E2].
        unch.
      * rewrite offline_get_sub_frame. unch.
    + intros _. rewrite offline_get_sub_frame. unch.
  - (* OGetDel *)
    destruct (ca x) as [c|] eqn:CA; cbn -[get_del]; [|intros _; unch].
    destruct (attached c sid); cbn -[get_del]; [|intros _; unch].
    intros _. destruct (get_del_same nr NoFault (st x) c 0 sid (sess_uid sm sid) a b l) as [E1 E2].
    unch.
  - (* ODelMsg *)
    destruct (ca x) as [c|] eqn:CA; cbn -[del_msg]; [|intros _; unch].
    destruct (attached c sid); cbn -[del_msg]; [|intros _; unch].
    intros ER. pose proof (del_msg_rej dr (st x) c 0 sid (sess_uid sm sid) req hard) as R. rej_fin R ER.
  - (* OSetSub *)
    destruct (ca x) as [c|] eqn:CA; cbn -[set_sub offline_set_sub].
    + destruct (attached c sid); cbn -[set_sub offline_set_sub].
      * intros ER. destruct (set_sub_rej _ _ _ _ _ _ _ ER) as [[E1 E2]|[p [L J]]].
        -- unch.
        -- exfalso. apply NB. unfold trig_banned, cur_cache. rewrite CA, L. exact J.
      * intros ER. destruct (offline_set_sub_rej (st x) sid (sess_uid sm sid) target mode) as [E|NE];
          [|exfalso; exact (err_no_err _ _ ER NE)].
        rewrite E. unch.
    + intros ER. destruct (offline_set_sub_rej (st x) sid (sess_uid sm sid) target mode) as [E|NE];
        [|exfalso; exact (err_no_err _ _ ER NE)].
      rewrite E. unch.
  - (* ODelSub *)
    destruct (ca x) as [c|] eqn:CA; cbn -[del_sub]; [|intros _; unch].
    destruct (attached c sid); cbn -[del_sub]; [|intros _; unch].
    intros ER. pose proof (del_sub_rej (st x) c 0 sid (sess_uid sm sid) target) as R. rej_fin R ER.
  - (* OUnload *)
    intros [code [ps [HIn _]]]. exfalso. repeat break_match_hyp; cbn in HIn; contradiction.
  - (* ORestart *)
    intros [code [ps [[] _]]].
Qed.
End RejectStep.
