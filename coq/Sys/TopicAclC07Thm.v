(* C07 proofs, part 5: histories.  The three invariants together, the writer laws at every
   step of a history, re-subscription, and the two refutation witnesses. *)
From Coq Require Import ZArith NArith List Bool Lia.
From Tinode Require Import Base.Util Pure.Acs Sys.Topic Sys.TopicTac Sys.TopicFrame Sys.TopicMarks Sys.TopicAclC07
  Sys.TopicAclC07Proofs Sys.TopicAclC07Inv Sys.TopicAclC07Join Sys.TopicAclC07Own.
Import ListNotations.
Open Scope Z_scope.

Section Hist.
Variable dr : Z -> list (Z * Z) -> option (list (Z * Z)).
Variable nr : list (Z * Z) -> list (Z * Z).
Variable sm : sessmap.

(* well-formed states *)
Definition inv_all (x : state) : Prop := inv_lim x /\ inv_sm x /\ inv_own x.

(* a property of every step of a history *)
Fixpoint all_steps (P : state -> fault * op -> state -> Prop) (x : state) (h : list (fault * op)) : Prop :=
  match h with
  | [] => True
  | fo :: r => P x fo (fst (step_f dr nr sm x fo)) /\ all_steps P (fst (step_f dr nr sm x fo)) r
  end.

(* histories of logged-in sessions without a failing owner write inside a transfer *)
Definition hist_ok : state -> list (fault * op) -> Prop :=
  all_steps (fun x fo _ => logged_in sm (snd fo) /\ ~ transfer_split sm (fst fo) x (snd fo)).
Definition hist_logged_in : state -> list (fault * op) -> Prop :=
  all_steps (fun _ fo _ => logged_in sm (snd fo)).

Lemma step_f_laws x fo :
  logged_in sm (snd fo) -> owner_sane (view x) -> sess_members (view x) ->
  step_laws sm x (snd fo) (fst (step_f dr nr sm x fo)).
Proof.
  intros LI OS SM. unfold step_f. pose proof (step_writer_laws dr nr sm (fst fo) x (snd fo) LI OS SM) as L.
  destruct (step dr nr sm (fst fo) x (snd fo)) as [x1 o1]. cbn [fst] in L.
  destruct (fst fo); cbn [fst]; try exact L.
  destruct L as [L1 [L2 _]]. unfold step_laws. cbn [st ca]. repeat split; auto; discriminate.
Qed.

Lemma own_view x : rows_nodup (st x) -> inv_own x -> owner_sane (view x).
Proof.
  intros ND [OS OC]. unfold view. destruct (ca x) as [c|]; [eapply own_c_sane; exact OC|].
  eapply own_c_sane. apply load_own; assumption.
Qed.

Lemma step_f_inv_all x fo :
  inv_all x -> logged_in sm (snd fo) -> ~ transfer_split sm (fst fo) x (snd fo) ->
  inv_all (fst (step_f dr nr sm x fo)).
Proof.
  intros [IL [IS IO]] LI NS. split; [apply step_f_inv_lim; exact IL|]. split; [apply (step_f_sess dr nr sm x fo IS)|].
  unfold step_f. pose proof (step_own dr nr sm (fst fo) x (snd fo) IL IS IO LI) as [A B].
  destruct (step dr nr sm (fst fo) x (snd fo)) as [x1 o1]. cbn [fst] in *.
  unfold nosplit in B. destruct (fst fo) eqn:EF; cbn [fst].
  - split; [exact A|apply B; exact I].
  - split; [exact A|apply B; exact NS].
  - split; [exact A|exact I].
Qed.

(* the writer laws hold at every step of every such history from every well-formed state *)
Theorem run_writer_laws h : forall x, inv_all x -> hist_ok x h ->
  all_steps (fun x fo x' => step_laws sm x (snd fo) x') x h.
Proof.
  induction h as [|fo h IH]; intros x IA HK; [exact I|]. destruct HK as [[LI NS] HK]. split.
  - destruct IA as [IL [IS IO]]. apply step_f_laws; [exact LI| |apply sm_view; exact IS].
    apply own_view; [apply IL|exact IO].
  - apply IH; [apply step_f_inv_all; assumption|exact HK].
Qed.

Lemma run_inv_all h : forall x, inv_all x -> hist_ok x h -> inv_all (fst (run dr nr sm x h)).
Proof.
  induction h as [|fo h IH]; intros x IA HK; cbn; [exact IA|]. destruct HK as [[LI NS] HK].
  pose proof (step_f_inv_all x fo IA LI NS) as S. destruct (step_f dr nr sm x fo) as [x1 o1]. cbn [fst] in *.
  specialize (IH x1 S HK). destruct (run dr nr sm x1 h) as [x2 os]. exact IH.
Qed.

Lemma all_steps_app P h1 : forall x h2, all_steps P x (h1 ++ h2) ->
  all_steps P (fst (run dr nr sm x h1)) h2.
Proof.
  induction h1 as [|fo h1 IH]; intros x h2 H; cbn; [exact H|]. destruct H as [_ H].
  specialize (IH _ _ H). destruct (step_f dr nr sm x fo) as [x1 o1]. cbn [fst] in *.
  destruct (run dr nr sm x1 h1) as [x2 os]. exact IH.
Qed.

(* the subscriber limit: every reachable state, EVERY fault plan, any requests *)
Theorem sub_limit h : forall x, inv_lim x ->
  Z.of_nat (live_count (st (fst (run dr nr sm x h)))) <= max_subs.
Proof. intros x H. apply (run_inv_lim dr nr sm h x H). Qed.
End Hist.

(* ---------- re-subscription restores the previous grant ---------- *)
Lemma tus_new_restores f s c n u mw nb r :
  alookup u (c_users c) = None -> find_sub u (subs s) = Some r -> (s_given r =? ModeUnset)%N = false ->
  let h := fst (tus_new f s c n u mw nb) in
  sgiven (h_st h) u = Some (s_given r) /\ (forall g, cgiven (h_ca h) u = Some g -> g = s_given r).
Proof.
  intros Hnone EF EU. cbv zeta.
  assert (sgiven s u = Some (s_given r)) as SG by (unfold sgiven; rewrite EF; reflexivity).
  assert (forall g, cgiven c u = Some g -> g = s_given r) as CG by (unfold cgiven; rewrite Hnone; discriminate).
  unfold tus_new, ad_sub_get. rewrite EF. cbn [negb]. rewrite andb_false_r, EU.
  destruct (max_subs <=? _); [auto|].
  destruct (call f n) as [ok1 n1]. destruct (negb ok1); [auto|].
  destruct (negb (is_joiner _)); [auto|].
  destruct (if s_deleted r then call f n1 else (true, n1)) as [ok2 n2]. destruct (negb ok2); [auto|].
  set (s2 := if s_deleted r then _ else s).
  assert (sgiven s2 u = Some (s_given r)) as SG2.
  { subst s2. destruct (s_deleted r); [|exact SG]. rewrite sgiven_create, N.eqb_refl. reflexivity. }
  destruct (negb (is_joiner _)).
  - destruct (evict_user _ u false 0) as [c3 o3] eqn:EV. cbn [fst h_st h_ca]. split; [exact SG2|].
    intros g. rewrite (evict_cgiven _ _ _ _ _ _ u EV), andb_false_r, cg_aset, N.eqb_refl. cbn. congruence.
  - cbn [fst h_st h_ca]. split; [exact SG2|]. intros g. rewrite cg_aset, N.eqb_refl. cbn. congruence.
Qed.

Section Resub.
Variable dr : Z -> list (Z * Z) -> option (list (Z * Z)).
Variable nr : list (Z * Z) -> list (Z * Z).
Variable sm : sessmap.

Theorem resubscribe_restores f x o r :
  inv_all x -> own_request (actor sm o) o -> actor sm o <> 0%N ->
  find_sub (actor sm o) (subs (st x)) = Some r -> s_deleted r = true -> (s_given r =? ModeUnset)%N = false ->
  let x' := fst (step_f dr nr sm x (f, o)) in
  sgiven (st x') (actor sm o) = Some (s_given r) /\
  (forall c', ca x' = Some c' -> forall g, cgiven c' (actor sm o) = Some g -> g = s_given r).
Proof.
  intros [[[ND _] _] [_ [OS OC]]] OR NZ EF ED EU. cbv zeta.
  set (u := actor sm o) in *.
  assert (sgiven (st x) u = Some (s_given r)) as SG by (unfold sgiven; rewrite EF; reflexivity).
  (* a user with a soft-deleted row is not cached *)
  assert (forall c, ca x = Some c -> alookup u (c_users c) = None) as NC.
  { intros c E. rewrite E in OC. destruct OC as [_ [_ [_ [_ C5]]]].
    destruct (alookup u (c_users c)) as [p|] eqn:EL; [|reflexivity].
    assert (cgiven c u = Some (p_given p)) as G by (unfold cgiven; rewrite EL; reflexivity).
    pose proof (C5 _ _ G) as L. unfold arow in L. rewrite EF in L. cbn in L. rewrite ED in L. discriminate. }
  assert (alookup u (c_users (load (st x))) = None) as NL.
  { unfold rows_nodup in ND. unfold load, load_users. cbn [c_users].
    change (fun acc r => if s_deleted r then acc else aset (s_user r) (mkPud (s_want r) (s_given r) (s_read r) (s_recv r) (s_delid r) 0) acc)
      with load_step. rewrite (load_users_lookup _ ND), EF, ED. reflexivity. }
  assert (forall c n nb, alookup u (c_users c) = None -> forall want,
            sgiven (h_st (fst (tus f (st x) c n u want nb))) u = Some (s_given r) /\
            (forall g, cgiven (h_ca (fst (tus f (st x) c n u want nb))) u = Some g -> g = s_given r)) as TUS.
  { intros c n nb E want. unfold tus. destruct (tus_mw want) as [mw okw].
    destruct (negb okw); [cbn [fst h_st h_ca]; split; [exact SG|unfold cgiven; rewrite E; discriminate]|].
    rewrite E. apply tus_new_restores; auto. }
  assert (forall c n sid want bkg, alookup u (c_users c) = None ->
            sgiven (h_st (sub_reply f (st x) c n sid u want bkg)) u = Some (s_given r) /\
            (forall g, cgiven (h_ca (sub_reply f (st x) c n sid u want bkg)) u = Some g -> g = s_given r)) as SR.
  { intros c n sid want bkg E. unfold sub_reply. rewrite tus_eq.
    match goal with |- context [tus f (st x) c n u want ?nb] =>
      pose proof (TUS c n nb E want) as T; pose proof (tus_ok_member f (st x) c n u want nb) as M;
      destruct (tus f (st x) c n u want nb) as [h rr] end.
    cbn [fst snd] in *. destruct rr as [code|ch]; cbn [h_st h_ca]; [exact T|].
    destruct T as [T1 T2]. split; [exact T1|]. specialize (M ch eq_refl).
    destruct (match ch with Some (w, g) => is_joiner (N.land g w) | None => true end); [|exact T2].
    destruct bkg; [exact T2|]. intros g. rewrite cg_aset, N.eqb_refl. unfold get_pud. cbn [c_users c_set_sess].
    unfold member in M. destruct (alookup u (c_users (h_ca h))) as [p|] eqn:EL; [|discriminate].
    cbn. intros H. apply T2. unfold cgiven. rewrite EL. exact H. }
  assert (forall n, sgiven (st (mkState (st x) (ca x) n)) u = Some (s_given r) /\
            (forall c', ca (mkState (st x) (ca x) n) = Some c' -> forall g, cgiven c' u = Some g -> g = s_given r)) as KEEP.
  { intros n. split; [exact SG|]. cbn [ca]. intros c' E g. unfold cgiven. rewrite (NC _ E). discriminate. }
  assert (sgiven (st (fst (step dr nr sm f x o))) u = Some (s_given r) /\
          (forall c', ca (fst (step dr nr sm f x o)) = Some c' -> forall g, cgiven c' u = Some g -> g = s_given r)) as STEP.
  { destruct OR as [[sid [want [bkg EO]]]|[sid [t [mode [EO HT]]]]].
    - (* {sub} *)
      assert (u = sess_uid sm sid) as EUu by (subst u; rewrite EO; reflexivity).
      rewrite EO. unfold step. rewrite <- EUu. destruct (ca x) as [c|] eqn:EC.
      + destruct (attached c sid); cbn [fst]; [apply (KEEP 0%nat)|].
        destruct (SR c 0%nat sid want bkg (NC c eq_refl)) as [A B]. cbn [st ca]. split; [exact A|].
        intros c' E. inv E. exact B.
      + destruct (try_load f (st x) 0) as [n1 [c|code]] eqn:ET; cbn [fst st ca].
        * unfold try_load in ET. repeat break_match_hyp; inv ET.
          destruct (SR (load (st x)) n1 sid want bkg NL) as [A B]. split; [exact A|].
          intros c' E. inv E. exact B.
        * split; [exact SG|discriminate].
    - (* {set sub} about oneself *)
      assert (u = sess_uid sm sid) as EUu by (subst u; rewrite EO; reflexivity).
      rewrite EO. unfold step. cbn [negb]. rewrite <- EUu.
      assert (sgiven (o_st (offline_set_sub f (st x) sid u t mode)) u = Some (s_given r)) as OFF.
      { destruct (offline_set_sub_laws f (st x) sid u t mode NZ) as [G _]. rewrite G. exact SG. }
      destruct (ca x) as [c|] eqn:EC.
      + destruct (attached c sid) eqn:EA; cbn [negb fst st ca].
        * pose proof (set_sub_res f (st x) c 0 sid u t mode) as R. cbv zeta in R.
          assert ((t =? 0)%N || N.eqb t u = true) as ES by (destruct HT as [->| ->]; [reflexivity|rewrite N.eqb_refl; apply orb_true_r]).
          rewrite ES in R. destruct R as [R1 R2]. destruct (TUS c 0%nat false (NC c eq_refl) mode) as [A B].
          split; [rewrite R1; exact A|]. intros c' E. inv E. rewrite R2. exact B.
        * split; [exact OFF|]. intros c' E. inv E.
          intros g. unfold cgiven. rewrite (NC c' eq_refl). discriminate.
      + cbn [negb fst st ca]. split; [exact OFF|discriminate]. }
  unfold step_f. cbn [fst snd]. destruct (step dr nr sm f x o) as [x1 o1]. cbn [fst] in STEP.
  destruct f; cbn [fst st ca]; auto. split; [apply STEP|discriminate].
Qed.
End Resub.

(* ---------- projections of the writer laws ---------- *)
Section Laws.
Variable dr : Z -> list (Z * Z) -> option (list (Z * Z)).
Variable nr : list (Z * Z) -> list (Z * Z).
Variable sm : sessmap.

Definition given_law (x : state) (fo : fault * op) (x' : state) : Prop :=
  let c := view x in let s := st x in let a := actor sm (snd fo) in let o := snd fo in
  (forall v, sgiven (st x') v = sgiven s v \/ exists g', sgiven (st x') v = Some g' /\ given_just c s a o v g') /\
  (forall c', ca x' = Some c' -> forall v g', cgiven c' v = Some g' -> cgiven c v = Some g' \/ given_just c s a o v g').
Definition want_law (x : state) (fo : fault * op) (x' : state) : Prop :=
  let c := view x in let s := st x in let a := actor sm (snd fo) in let o := snd fo in
  (forall v, swant (st x') v = swant s v \/ exists w', swant (st x') v = Some w' /\ want_just c s a o v w') /\
  (forall c', ca x' = Some c' -> forall v w', cwant c' v = Some w' -> cwant c v = Some w' \/ want_just c s a o v w').

Lemma all_steps_impl (P Q : state -> fault * op -> state -> Prop) h :
  (forall x fo x', P x fo x' -> Q x fo x') -> forall x, all_steps dr nr sm P x h -> all_steps dr nr sm Q x h.
Proof. intros HI. induction h as [|fo h IH]; intros x H; [exact I|]. destruct H as [A B]. split; auto. Qed.

Theorem given_writers_run x h : inv_all x -> hist_ok dr nr sm x h -> all_steps dr nr sm given_law x h.
Proof.
  intros IA HK. eapply all_steps_impl; [|apply run_writer_laws; eassumption].
  intros x0 fo x' [L1 [_ [L3 _]]]. split; assumption.
Qed.
Theorem want_writers_run x h : inv_all x -> hist_ok dr nr sm x h -> all_steps dr nr sm want_law x h.
Proof.
  intros IA HK. eapply all_steps_impl; [|apply run_writer_laws; eassumption].
  intros x0 fo x' [_ [L2 [_ L4]]]. split; assumption.
Qed.

(* no attached session of a user whose grant lacks J, in every state reached without the
   stale-ban request pattern, under every fault plan *)
Theorem no_join_no_attach_run x h : inv_sm x -> inv_aj x -> no_stale dr nr sm x h ->
  inv_aj (fst (run dr nr sm x h)).
Proof. intros. apply run_inv_aj; assumption. Qed.
End Laws.

(* an administrator's self-raise stays within ~(O|D) and never removes anything *)
Lemma raise_within g mw : is_owner mw = false ->
  N.land g (N.lor g (N.ldiff mw mD)) = g /\ N.land (N.ldiff (N.lor g (N.ldiff mw mD)) g) (N.lor mO mD) = 0%N.
Proof.
  intros H. rewrite is_owner_bit in H. split; apply N.bits_inj; intros i.
  - rewrite N.land_spec, N.lor_spec. destruct (N.testbit g i); reflexivity.
  - rewrite N.land_spec, N.ldiff_spec, !N.lor_spec, N.ldiff_spec, N.bits_0.
    change mO with (2 ^ 7)%N. change mD with (2 ^ 6)%N. rewrite !N.pow2_bits_eqb.
    destruct (N.eqb 7 i) eqn:E7.
    + apply N.eqb_eq in E7. subst i. rewrite H. destruct (N.testbit g 7); reflexivity.
    + destruct (N.testbit g i), (N.testbit mw i), (N.eqb 6 i); reflexivity.
Qed.

