(* Load paths of ALL topic kinds (server/init_topic.go) as far as they set the
   message counters of the cache (Topic.lastID, Topic.delID) from the stored
   topic row, and the numbering slice of a peer-to-peer topic and of the 'sys'
   topic: hub.join -> topicInit -> initTopicP2P / initTopicSys, subscriptionReply
   -> thisUserSub, replyLeaveUnsub (P2P: last unsubscribe deletes the topic),
   saveAndBroadcastMessage + messagesMapper.Save, replyGetData, replyGetDesc,
   idle unload, restart.  Group topics are modelled in Sys/Topic.v; their load
   ([Topic.try_load]) is re-exported here as [init_grp] so that the statement
   "after a load lastID = stored seqid" can be made for every kind.

   Store rows, adapter primitives, the fault plan and [call] are those of
   Sys/Topic.v (one store contract).  Not part of this slice: per-user marks in
   the cache (read/recv/delID - C09/C04), presence, {set}, {del}, calls;
   sessions of a p2p topic are LevelAuth sessions of its two parties, sessions
   of 'sys' are LevelRoot for the users in [roots] and LevelAuth otherwise.

   Definitions only.  Proofs are in Sys/TopicLoadProofs.v. *)
From Coq Require Import ZArith NArith List Bool.
From Tinode Require Import Base.Util Pure.Acs Sys.Topic.
Import ListNotations.
Open Scope Z_scope.

Inductive tkind := KMe | KFnd | KP2P | KGrp | KSys.
(* initTopicMe / initTopicFnd: "t.lastId, t.delId are explicitly not set" - these topics carry no messages *)
Definition carries_messages (k : tkind) : bool := match k with KMe | KFnd => false | _ => true end.

(* ------------------------------------------------------------------ *)
(* cache slice                                                          *)
Record lpud := mkLP { lp_want : N; lp_given : N; lp_deleted : bool }.
Record lcache := mkLC {
  l_lastid : Z; l_delid : Z;
  l_users : list (N * lpud);        (* perUser *)
  l_sess : list (N * N)             (* attached sessions: sid -> uid *) }.
Definition lp_mode (p : lpud) : N := N.land (lp_given p) (lp_want p).
Definition zero_pud := mkLP 0 0 false.
Definition lget (c : lcache) (u : N) : lpud := match alookup u (l_users c) with Some p => p | None => zero_pud end.
Definition lmode (c : lcache) (u : N) : N := lp_mode (lget c u).
Definition l_set_users (f : list (N * lpud) -> list (N * lpud)) (c : lcache) : lcache :=
  mkLC (l_lastid c) (l_delid c) (f (l_users c)) (l_sess c).
Definition l_set_sess (f : list (N * N) -> list (N * N)) (c : lcache) : lcache :=
  mkLC (l_lastid c) (l_delid c) (l_users c) (f (l_sess c)).
Definition l_set_lastid (v : Z) (c : lcache) : lcache := mkLC v (l_delid c) (l_users c) (l_sess c).
Definition lattached (c : lcache) (sid : N) : bool := match alookup sid (l_sess c) with Some _ => true | None => false end.

Definition ModeCP2P : N := 31%N.    (* JRWPA *)
Definition ModeCSys : N := 79%N.    (* JRWPD *)
Definition p2p_sane (m : N) : N := N.lor (N.land m ModeCP2P) mA.   (* m & ModeCP2P | ModeApprove *)

(* ------------------------------------------------------------------ *)
(* store views used by the load paths                                   *)
Definition known (s : store) (u : N) : bool := match alookup u (users s) with Some _ => true | None => false end.
(* Topics.GetUsers (UsersForTopic, keepDeleted=false): live rows of existing users *)
Definition p2p_rows (s : store) : list subrow :=
  filter (fun r => negb (s_deleted r) && known s (s_user r)) (subs s).
(* Topics.GetSubs (SubsForTopic, keepDeleted=false): live rows *)
Definition live_rows (s : store) : list subrow := filter (fun r => negb (s_deleted r)) (subs s).
Definition load_lusers (rows : list subrow) : list (N * lpud) :=
  fold_left (fun acc r => aset (s_user r) (mkLP (s_want r) (s_given r) false) acc) rows [].
(* TopicCreateP2P: the topics row of a new p2p topic (seqid = delid = 0, no owner) *)
Definition p2p_row (s : store) : store := mkStore true 0 0 0%N 0%N 0%N (subs s) (msgs s) (dellog s) (users s).
(* TopicDelete(hard): subscriptions, deletion log, messages and the topics row are removed *)
Definition p2p_wipe (s : store) : store := mkStore false 0 0 0%N 0%N 0%N [] [] [] (users s).

Inductive lres :=
| LErr (code : Z) (n : nat)                                    (* topicInit failed: error reply, topic removed from the hub *)
| LOk (s : store) (c : lcache) (n : nat) (newsub : bool).      (* loaded; [newsub] = pktsub.Newsub set by the load *)

(* initTopicMe / initTopicFnd: Users.Get, loadSubscribers; lastID and delID stay 0 *)
Definition init_me_fnd (f : fault) (s : store) (n : nat) : lres :=
  let '(ok1, n1) := call f n in                            (* Users.Get *)
  if negb ok1 then LErr 500 n1 else
  let '(ok2, n2) := call f n1 in                           (* loadSubscribers *)
  if negb ok2 then LErr 500 n2 else
  LOk s (mkLC 0 0 [] []) n2 false.

(* initTopicP2P; [u1] = requester, [u2] = the other user (from the usrXXX name), LevelAuth, no {sub.set} *)
Definition init_p2p (f : fault) (s : store) (n : nat) (u1 u2 : N) : lres :=
  let '(ok1, n1) := call f n in                            (* Topics.Get *)
  if negb ok1 then LErr 500 n1 else
  let ex := t_exists s in
  let '(ok2, n2) := if ex then call f n1 else (true, n1) in (* Topics.GetUsers *)
  if negb ok2 then LErr 500 n2 else
  let rows := if ex then p2p_rows s else [] in
  (* Case 3: topic exists, both subscriptions are missing: ErrInternal *)
  if ex && (length rows =? 0)%nat then LErr 500 n2 else
  (* if stopic != nil { ... t.lastID = stopic.SeqId; t.delID = stopic.DelId } *)
  let lastid := if ex then t_seqid s else 0 in
  let delid := if ex then t_delid s else 0 in
  if ex && (length rows =? 2)%nat then
    (* Case 4: both subscriptions exist *)
    LOk s (mkLC lastid delid (load_lusers rows) []) n2 false
  else
    (* Cases 1 (new topic) and 2 (one of the two subscriptions is missing or was deleted) *)
    let '(ok3, n3) := call f n2 in                         (* Users.GetAll(u1, u2) *)
    if negb ok3 then LErr 500 n3 else
    if N.eqb u1 u2 then LErr 404 n3 else
    match alookup u1 (users s), alookup u2 (users s) with
    | Some acc1, Some acc2 =>
      let single := match rows with [r] => Some r | _ => None end in     (* len(subs) == 1 *)
      let sub1 := match single with Some r => if N.eqb (s_user r) u1 then Some r else None | None => None end in
      let sub2 := match single with Some r => if N.eqb (s_user r) u1 then None else Some r | None => None end in
      let user1only := match sub2 with Some _ => true | None => false end in
      (* sub2 == nil: ModeGiven = users[u1].Access.Auth & ModeCP2P | ModeApprove *)
      let g2 := match sub2 with Some r => s_given r | None => p2p_sane acc1 end in
      (* sub1 == nil: modeGiven = users[u2].Access.Auth, modeWant = sub2.ModeGiven; pktsub.Newsub = true *)
      let w1 := match sub1 with Some r => s_want r | None => g2 end in
      let g1 := match sub1 with Some r => s_given r | None => acc2 end in
      let newsub := match sub1 with Some _ => false | None => true end in
      (* !user1only: sub2.ModeWant = users[u2].Access.Auth & ModeCP2P | ModeApprove *)
      let w2 := match sub2 with Some r => s_want r | None => p2p_sane acc2 end in
      let '(ok4, n4) := call f n3 in                       (* Topics.CreateP2P | Subs.Create *)
      if negb ok4 then LErr 500 n4 else
      let s' := if ex then (if user1only then ad_sub_create s u1 w1 g1 else ad_sub_create s u2 w2 g2)
                else ad_sub_create (ad_sub_create (p2p_row s) u1 w1 g1) u2 w2 g2 in
      (* t.lastId is not set (default 0) for new topics *)
      LOk s' (mkLC lastid delid (aset u2 (mkLP w2 g2 false) [(u1, mkLP w1 g1 false)]) []) n4 newsub
    | _, _ => LErr 404 n3                                   (* len(users) != 2: ErrUserNotFound *)
    end.

(* initTopicGrp: the group model's load *)
Definition init_grp (f : fault) (s : store) (n : nat) : lres :=
  match try_load f s n with
  | (n1, inl c) => LOk s (mkLC (c_lastid c) (c_delid c)
                            (map (fun e => (fst e, mkLP (p_want (snd e)) (p_given (snd e)) false)) (c_users c)) []) n1 false
  | (n1, inr code) => LErr code n1
  end.

(* initTopicSys: t.lastID = stopic.SeqId; t.delID is NOT assigned *)
Definition init_sys (f : fault) (s : store) (n : nat) : lres :=
  let '(ok1, n1) := call f n in                            (* Topics.Get *)
  if negb ok1 then LErr 500 n1 else
  if negb (t_exists s) then LErr 404 n1 else
  let '(ok2, n2) := call f n1 in                           (* loadSubscribers: Topics.GetSubs *)
  if negb ok2 then LErr 500 n2 else
  LOk s (mkLC (t_seqid s) 0 (load_lusers (live_rows s)) []) n2 false.

Definition init_topic (k : tkind) (f : fault) (s : store) (n : nat) (u1 u2 : N) : lres :=
  match k with
  | KMe | KFnd => init_me_fnd f s n
  | KP2P => init_p2p f s n u1 u2
  | KGrp => init_grp f s n
  | KSys => init_sys f s n
  end.

(* ------------------------------------------------------------------ *)
(* frames (the projection C01 reads) and handlers                       *)
Inductive lframe :=
| LCtrl (code : Z) (seq : option Z)      (* {ctrl}; params.seq on the 202 of an accepted publish *)
| LData (seq : Z) (from content : N)
| LDesc (seq : Z).                       (* {meta desc}: desc.seq *)
Definition lout := list (N * lframe).

Inductive lkind := LP2P | LSys.

Record lh := mkLH { lh_st : store; lh_ca : lcache; lh_n : nat; lh_out : lout }.

(* evictUser: the user's sessions are detached *)
Definition l_evict (c : lcache) (u : N) : lcache := l_set_sess (filter (fun e => negb (N.eqb (snd e) u))) c.

(* t.accessFor(level): P2P topics have no default access (sessions are LevelAuth);
   'sys': ModeWrite for LevelAuth, getDefaultAccess(TopicCatSys) = ModeCSys for LevelRoot *)
Definition access_for (k : lkind) (root : bool) : N :=
  match k with LP2P => 0%N | LSys => if root then ModeCSys else mW end.

(* subscriptionReply + thisUserSub with no requested mode *)
Definition lsub (k : lkind) (root : bool) (f : fault) (s : store) (c : lcache) (n : nat) (sid u : N) (newsub0 : bool) : lh :=
  let reply code := [(sid, LCtrl code None)] in
  (* hasJoined: true unless a changed mode without J was reported *)
  let attach (changed : bool) (w g : N) (c' : lcache) :=
      if (if changed then is_joiner (N.land g w) else true) then l_set_sess (aset sid u) c' else c' in
  match alookup u (l_users c) with
  | Some p =>
    if lp_deleted p then
      (* P2P: the subscription was deleted while the topic stayed loaded *)
      let w := p2p_sane (lp_want p) in
      let g := lp_given p in
      if negb (is_joiner g) then mkLH s c n (reply 403) else
      let '(ok1, n1) := call f n in                        (* Subs.Create *)
      if negb ok1 then mkLH s c n1 (reply 500) else
      let s1 := ad_sub_create s u w g in
      let c1 := l_set_users (aset u (mkLP w g false)) c in
      if negb (is_joiner w) then mkLH s1 (attach true w g (l_evict c1 u)) n1 (reply 200)
      else mkLH s1 (attach true w g c1) n1 (reply 200)
    else
      let oldw := lp_want p in
      let g := lp_given p in
      (* un-self-ban: modeWant = modeGiven | t.accessFor(level), minus O (there is no owner) *)
      let w := if negb (is_joiner oldw) then N.ldiff (N.lor g (access_for k root)) mO else oldw in
      let need := negb (w =? oldw)%N in
      let '(ok1, n1) := if need then call f n else (true, n) in   (* Subs.Update *)
      if negb ok1 then mkLH s c n1 (reply 500) else
      let s1 := if need then ad_subs_update s u (mkUpd (Some w) None None None None) else s in
      let c1 := l_set_users (aset u (mkLP w g false)) c in
      let changed := newsub0 || need in
      if negb (is_joiner w) then mkLH s1 (attach changed w g (l_evict c1 u)) n1 (reply 200) else
      if negb (is_joiner g) then mkLH s1 c1 n1 (reply 403) else
      mkLH s1 (attach changed w g c1) n1 (reply 200)
  | None =>
    match k with
    | LP2P =>
      (* not a party: zero perUserData, modeGiven has no J *)
      mkLH s c n (reply 403)
    | LSys =>
      if negb root then mkLH s c n (reply 403) else
      let '(ok1, n1) := call f n in                        (* Subs.Create *)
      if negb ok1 then mkLH s c n1 (reply 500) else
      mkLH (ad_sub_create s u ModeCSys ModeCSys)
           (attach true ModeCSys ModeCSys (l_set_users (aset u (mkLP ModeCSys ModeCSys false)) c)) n1 (reply 200)
    end
  end.

(* subsCount of a P2P topic: users not marked deleted *)
Definition subs_count (c : lcache) : nat := length (filter (fun e => negb (lp_deleted (snd e))) (l_users c)).

(* replyLeaveUnsub (+ hub.topicUnreg when the last P2P subscription goes) *)
Definition lleave_unsub (k : lkind) (f : fault) (s : store) (c : lcache) (n : nat) (sid u : N)
  : store * option lcache * nat * lout :=
  let '(ok1, n1) := call f n in                            (* Subs.Delete *)
  if negb ok1 then (s, Some c, n1, [(sid, LCtrl 500 None)]) else
  match ad_subs_delete s u with
  | None => (s, Some c, n1, [(sid, LCtrl 304 None)])
  | Some s1 =>
    let o := [(sid, LCtrl 200 None)] in
    match k with
    | LP2P =>
      (* evictUser(unsub): P2P marks the user deleted *)
      let p := lget c u in
      let c1 := l_evict (l_set_users (aset u (mkLP (lp_want p) (lp_given p) true)) c) u in
      if (subs_count c1 =? 0)%nat then
        let '(ok2, n2) := call f n1 in                     (* hub.topicUnreg: Topics.Delete(hard) *)
        if negb ok2 then (s1, Some c1, n2, o) else (p2p_wipe s1, None, n2, o)
      else (s1, Some c1, n1, o)
    | LSys => (s1, Some (l_evict (l_set_users (aremove u) c) u), n1, o)
    end
  end.

(* data fan-out: attached sessions of users whose effective mode has R, minus skip *)
Definition lfanout (c : lcache) (skip : N) (fr : lframe) : lout :=
  flat_map (fun e => if N.eqb (fst e) skip then [] else
                     if is_reader (lmode c (snd e)) then [(fst e, fr)] else []) (l_sess c).

(* saveAndBroadcastMessage + messagesMapper.Save (no attachments); anyone may post to 'sys' *)
Definition lpublish (k : lkind) (f : fault) (s : store) (c : lcache) (n : nat) (sid u content : N) (noecho : bool) : lh :=
  let p := lget c u in
  let fail s n code := mkLH s c n [(sid, LCtrl code None)] in
  if (match k with LSys => false | LP2P => negb (is_writer (lp_mode p)) end) then fail s n 403 else
  let seq := l_lastid c + 1 in
  let '(ok1, n1) := call f n in                            (* TopicUpdateOnMessage *)
  if negb ok1 then fail s n1 500 else
  let s1 := if t_exists s then st_seqid seq s else s in
  let '(ok2, n2) := call f n1 in                           (* MessageSave *)
  if negb ok2 then fail s1 n2 500 else
  if negb (t_exists s) then fail s1 n2 500 else            (* foreign key messages.topic -> topics *)
  match ad_msg_save s1 seq u content with
  | None => fail s1 n2 500                                 (* duplicate (topic, seqid) *)
  | Some s2 =>
    let reader := is_reader (lp_mode p) in
    let '(ok3, n3) := if reader then call f n2 else (true, n2) in   (* SubsUpdate(from, recv, read): error ignored *)
    let s3 := if reader && ok3 then ad_subs_update s2 u (mkUpd None None (Some seq) (Some seq) None) else s2 in
    let c1 := l_set_lastid seq c in
    mkLH s3 c1 n3 ((sid, LCtrl 202 (Some seq)) :: lfanout c1 (if noecho then sid else 0%N) (LData seq u content))
  end.

(* replyGetData without options *)
Definition lget_data (f : fault) (s : store) (c : lcache) (n : nat) (sid u : N) : lh :=
  if is_reader (lmode c u) then
    let '(ok1, n1) := call f n in                          (* Messages.GetAll *)
    if negb ok1 then mkLH s c n1 [(sid, LCtrl 500 None)] else
    match ad_msg_get_all s u 0 0 0 with
    | [] => mkLH s c n1 [(sid, LCtrl 204 None)]
    | ms => mkLH s c n1 (map (fun m => (sid, LData (m_seq m) (m_from m) (m_content m))) ms ++ [(sid, LCtrl 208 None)])
    end
  else mkLH s c n [(sid, LCtrl 204 None)].

(* replyGetDesc: desc.seq = lastID for readers *)
Definition lget_desc (s : store) (c : lcache) (n : nat) (sid u : N) : lh :=
  mkLH s c n [(sid, LDesc (if is_reader (lmode c u) then l_lastid c else 0))].

(* replyOfflineTopicGetDesc: no message number is reported *)
Definition loffline_desc (k : lkind) (f : fault) (s : store) (sid other : N) : nat * lout :=
  let '(ok1, n1) := call f 0 in                            (* Users.Get(other) | Topics.Get("sys") *)
  if negb ok1 then (n1, [(sid, LCtrl 500 None)]) else
  if negb (match k with LP2P => known s other | LSys => t_exists s end) then (n1, [(sid, LCtrl 404 None)]) else
  let '(ok2, n2) := call f n1 in                           (* Subs.Get *)
  if negb ok2 then (n2, [(sid, LCtrl 500 None)]) else (n2, [(sid, LDesc 0)]).

(* ------------------------------------------------------------------ *)
(* one request, handled to quiescence                                   *)
Inductive lop :=
| LSub (sid : N) (byname : bool)   (* byname: addressed by the p2pAAABBB name instead of usrBBB *)
| LLeave (sid : N) (unsub : bool)
| LPub (sid content : N) (noecho : bool)
| LGetData (sid : N)
| LGetDesc (sid : N)
| LUnload                       (* idle timeout of a topic with no sessions ('sys' is never unloaded) *)
| LRestart.                     (* process restart *)

Record lstate := mkLS { x_st : store; x_ca : option lcache; x_n : nat }.

Section LStep.
Variable k : lkind.
Variable sm : sessmap.          (* session -> user *)
Variable roots : list N.        (* users whose sessions are LevelRoot ('sys' scenarios) *)
Variable ua ub : N.             (* the two parties of the P2P topic *)

Definition peer (u : N) : N := if N.eqb u ua then ub else ua.
Definition is_root (u : N) : bool := existsb (N.eqb u) roots.

(* [other] = types.ParseUserId(t.xoriginal): the peer when the topic was addressed as usrXXX,
   the zero uid when it was addressed by its p2p name *)
Definition lload (f : fault) (s : store) (n : nat) (u other : N) : lres :=
  match k with LP2P => init_p2p f s n u other | LSys => init_sys f s n end.

(* what a fresh process holds: nothing for a P2P topic; newHub() loads 'sys' *)
Definition boot (s : store) : option lcache :=
  match k with
  | LP2P => None
  | LSys => match init_sys NoFault s 0 with LOk _ c _ _ => Some c | LErr _ _ => None end
  end.

Definition lstep (f : fault) (x : lstate) (o : lop) : lstate * lout :=
  let s := x_st x in
  let keep o' := (mkLS s (x_ca x) 0, o') in
  let fin (h : lh) := (mkLS (lh_st h) (Some (lh_ca h)) (lh_n h), lh_out h) in
  match o with
  | LUnload =>
    match k, x_ca x with
    | LP2P, Some c => match l_sess c with [] => (mkLS s None 0, []) | _ => keep [] end
    | _, _ => keep []
    end
  | LRestart => (mkLS s (boot s) 0, [])
  | LSub sid byname =>
    let u := sess_uid sm sid in
    let ns c := match alookup u (l_users c) with Some p => lp_deleted p | None => true end in
    match x_ca x with
    | Some c => if lattached c sid then keep [(sid, LCtrl 304 None)]
                else fin (lsub k (is_root u) f s c 0 sid u (ns c))
    | None =>
      match lload f s 0 u (if byname then 0%N else peer u) with
      | LErr code n1 => (mkLS s None n1, [(sid, LCtrl code None)])
      | LOk s1 c n1 newsub => fin (lsub k (is_root u) f s1 c n1 sid u (newsub || ns c))
      end
    end
  | LLeave sid unsub =>
    let u := sess_uid sm sid in
    match x_ca x with
    | Some c =>
      if lattached c sid then
        if unsub then let '(s1, c1, n1, o1) := lleave_unsub k f s c 0 sid u in (mkLS s1 c1 n1, o1)
        else fin (mkLH s (l_set_sess (aremove sid) c) 0 [(sid, LCtrl 200 None)])
      else keep [(sid, LCtrl (if unsub then 409 else 304) None)]
    | None => keep [(sid, LCtrl (if unsub then 409 else 304) None)]
    end
  | LPub sid content noecho =>
    let u := sess_uid sm sid in
    match x_ca x with
    | Some c =>
      if lattached c sid || (match k with LSys => true | LP2P => false end)
      then fin (lpublish k f s c 0 sid u content noecho)
      else keep [(sid, LCtrl 409 None)]
    | None =>
      (* hub.routeCli: 'sys' is not loaded: "accepted" without a number, nothing stored *)
      match k with LSys => keep [(sid, LCtrl 202 None)] | LP2P => keep [(sid, LCtrl 409 None)] end
    end
  | LGetData sid =>
    let u := sess_uid sm sid in
    match x_ca x with
    | Some c => if lattached c sid then fin (lget_data f s c 0 sid u) else keep [(sid, LCtrl 403 None)]
    | None => keep [(sid, LCtrl 403 None)]
    end
  | LGetDesc sid =>
    let u := sess_uid sm sid in
    let off := let '(n1, o1) := loffline_desc k f s sid (peer u) in (mkLS s (x_ca x) n1, o1) in
    match x_ca x with
    | Some c => if lattached c sid then fin (lget_desc s c 0 sid u) else off
    | None => off
    end
  end.

(* a crash discards the in-memory state after the faulty request; the process comes back *)
Definition lstep_f (x : lstate) (fo : fault * lop) : lstate * lout :=
  let '(x1, o1) := lstep (fst fo) x (snd fo) in
  match fst fo with
  | CrashAt _ => (mkLS (x_st x1) (boot (x_st x1)) (x_n x1), o1)
  | _ => (x1, o1)
  end.

Fixpoint lrun (x : lstate) (h : list (fault * lop)) : lstate * list lout :=
  match h with
  | [] => (x, [])
  | fo :: r => let '(x1, o1) := lstep_f x fo in
               let '(x2, os) := lrun x1 r in (x2, o1 :: os)
  end.
End LStep.
