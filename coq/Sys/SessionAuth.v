(** * Session handshake / authentication state machine (property C11)

    Model of [Session.dispatch], [Session.hello], [Session.login], [Session.onLogin],
    [Session.acc] + the entry conditions of [replyCreateUser] / [replyUpdateUser], and the
    sender-header scrub of [Session.publish] (server/session.go, server/user.go).

    DEFINITIONS ONLY.  The authenticator / user-record / credential-validator pipeline is
    not modelled: its result is an ORACLE field of the message ([auth_outcome],
    [vld_outcome], [create_outcome], ...), so every theorem quantifies over all results
    those components can produce.  The guard table (which of the wrappers [checkVers],
    [checkUser] surround each handler in the [switch] of [dispatch]) is a PARAMETER of
    [dispatch]; it is regenerated from the source on every run (Gen/GenDispatch.v) and
    must satisfy [table_ok]. *)
From Coq Require Import NArith List Bool.
Import ListNotations.
Local Open Scope N_scope.

(** ** Alphabet *)

Inductive kind := KHi | KAcc | KLogin | KSub | KLeave | KPub | KGet | KSet | KDel | KNote.

Definition kind_eqb (a b : kind) : bool :=
  match a, b with
  | KHi, KHi | KAcc, KAcc | KLogin, KLogin | KSub, KSub | KLeave, KLeave | KPub, KPub
  | KGet, KGet | KSet, KSet | KDel, KDel | KNote, KNote => true
  | _, _ => false
  end.

Definition all_kinds : list kind := [KHi; KAcc; KLogin; KSub; KLeave; KPub; KGet; KSet; KDel; KNote].

(** Authentication levels (auth.Level). *)
Definition LNone : N := 0.
Definition LAnon : N := 10.
Definition LAuth : N := 20.
Definition LRoot : N := 30.

(** Session state: Session.ver, Session.uid, Session.authLvl.  [uid = 0] is the zero Uid. *)
Record sstate := { ver : N; uid : N; lvl : N }.
Definition fresh : sstate := {| ver := 0; uid := 0; lvl := 0 |}.

(** Replies queued by the dispatch level and by hello/login/acc, by constructor used in
    the Go code (two replies with the same numeric code stay distinguishable). *)
Inductive reply :=
| ROk200            (* NoErr *)
| RCreated201       (* NoErrCreated, and {hi} accepted *)
| RChallenge300     (* InfoChallenge *)
| RValidate300      (* InfoValidateCredentials *)
| RMalformed400     (* ErrMalformed *)
| RAuthRequired401  (* ErrAuthRequiredReply (checkUser) *)
| RAuthFailed401    (* ErrAuthFailed *)
| RUnknownScheme401 (* ErrAuthUnknownScheme *)
| RDenied403        (* ErrPermissionDenied *)
| RAlreadyAuth409   (* ErrAlreadyAuthenticated *)
| ROutOfSeq409      (* ErrCommandOutOfSequence (checkVers, version change) *)
| RVersion505       (* ErrVersionNotSupported *)
| ROther (code : N) (* any other reply produced by an oracle component *).

Definition code_of (r : reply) : N :=
  match r with
  | ROk200 => 200 | RCreated201 => 201 | RChallenge300 => 300 | RValidate300 => 300
  | RMalformed400 => 400 | RAuthRequired401 => 401 | RAuthFailed401 => 401
  | RUnknownScheme401 => 401 | RDenied403 => 403 | RAlreadyAuth409 => 409
  | ROutOfSeq409 => 409 | RVersion505 => 505 | ROther c => c
  end.

(** ** Message fields that matter *)

(** msg.Extra.AsUser: absent/empty, or a string whose [types.ParseUserId] is [u]
    ([u = 0]: unparsable).  msg.Extra.AuthLevel as parsed by [auth.ParseAuthLevel]
    (0 when absent or invalid). *)
Record extra := { ex_asuser : option N; ex_level : N }.
Definition no_extra : extra := {| ex_asuser := None; ex_level := 0 |}.

(** {hi}: is the version string empty; [parseVersion] of it; is that value at least the
    minimum supported version ([versionCompare (v, min) >= 0]). *)
Record hi_f := { hi_empty : bool; hi_parsed : N; hi_supported : bool }.

(** User record state as seen by login ([rec.State] or [userGetState]). *)
Inductive ustate := USOk | USSuspended | USDeleted | USErr (r : reply).

(** What [handler.Authenticate] returned. *)
Record auth_rec := {
  ar_uid : N; ar_lvl : N;
  ar_validated : bool;      (* auth.FeatureValidated *)
  ar_nologin : bool;        (* auth.FeatureNoLogin *)
  ar_state : ustate;
  ar_challenge : bool       (* challenge != nil *)
}.
Inductive auth_outcome :=
| AUnknownScheme             (* GetLogicalAuthHandler = nil *)
| AFailed (r : reply)        (* err != nil: wrong secret, expired, malformed, unsupported... *)
| ARec (a : auth_rec).

(** Result of the credential-validator check, were it performed. *)
Inductive vld_outcome := VSatisfied | VMissing | VError (r : reply).

Record login_f := {
  lg_reset : option reply;   (* Some r: scheme "reset", r = the reply of authSecretReset *)
  lg_auth : auth_outcome;
  lg_vld : vld_outcome
}.

(** {acc}.  [ac_tmp]: result of the temporary-authentication block; [ac_create]: result
    of the account-creation pipeline of replyCreateUser once its entry condition holds;
    [ac_target]: msg.Acc.User of an update (None: empty; Some 0: unparsable);
    [ac_state]: a state change is requested; [ac_update]: reply of the update once the
    entry conditions of replyUpdateUser hold. *)
Inductive tmp_outcome := TmpNone | TmpUnknown | TmpFailed (r : reply) | TmpRec (u l : N).
Inductive create_outcome :=
| CrRefused (r : reply)
| CrCreated (u l : N) (nologin missing : bool).
Record acc_f := {
  ac_new : bool; ac_login : bool; ac_tmp : tmp_outcome; ac_create : create_outcome;
  ac_target : option N; ac_state : bool; ac_update : reply
}.

(** The seven kinds whose handlers are outside this model. *)
Inductive tkind := TSub | TLeave | TPub | TGet | TSet | TDel | TNote.
Definition kind_of_tkind (t : tkind) : kind :=
  match t with
  | TSub => KSub | TLeave => KLeave | TPub => KPub | TGet => KGet | TSet => KSet
  | TDel => KDel | TNote => KNote
  end.

Inductive body :=
| BHi (h : hi_f)
| BLogin (l : login_f)
| BAcc (a : acc_f)
| BTopic (t : tkind) (sender : option N) (logout : bool)
  (* sender: client-supplied head.sender of a {pub}.
     logout: ORACLE, meaningful for {sub} only: the topic initialiser (initTopicMe /
     initTopicFnd, init_topic.go 141-145, 198) did not find the ACTING user's account and
     "logged the session out" by zeroing Session.uid (Session.authLvl is left alone). *).

Record msg := { m_extra : extra; m_body : body }.

Definition kind_of (m : msg) : kind :=
  match m_body m with
  | BHi _ => KHi | BLogin _ => KLogin | BAcc _ => KAcc | BTopic t _ _ => kind_of_tkind t
  end.

(** ** Guard table *)

(** [g_ver]/[g_user]: the handler is wrapped in checkVers / checkUser (refusal WITH a
    reply).  [g_sver]/[g_suser]: the handler itself returns silently when [s.ver == 0] /
    [msg.AsUser == ""] (the first statement of [Session.note]). *)
Record guard := { g_ver : bool; g_user : bool; g_sver : bool; g_suser : bool }.

Definition guard_eqb (a b : guard) : bool :=
  Bool.eqb (g_ver a) (g_ver b) && Bool.eqb (g_user a) (g_user b) &&
  Bool.eqb (g_sver a) (g_sver b) && Bool.eqb (g_suser a) (g_suser b).

Definition table := list (kind * guard).

(** A kind that has no entry is refused always (fail closed). *)
Definition closed_guard : guard := {| g_ver := true; g_user := true; g_sver := true; g_suser := true |}.

Fixpoint lookup (t : table) (k : kind) : option guard :=
  match t with
  | [] => None
  | (k', g) :: r => if kind_eqb k k' then Some g else lookup r k
  end.

Definition guard_for (t : table) (k : kind) : guard :=
  match lookup t k with Some g => g | None => closed_guard end.

Definition mkg (v u sv su : bool) : guard := {| g_ver := v; g_user := u; g_sver := sv; g_suser := su |}.

(** The table the property demands: before the handshake everything but {hi} is refused
    (notes: dropped); before login everything but {hi}, {acc}, {login} is refused (notes:
    dropped). *)
Definition spec_guard (k : kind) : guard :=
  match k with
  | KHi => mkg false false false false
  | KLogin | KAcc => mkg true false false false
  | KNote => mkg false false true true
  | _ => mkg true true false false
  end.

Definition spec_table : table := map (fun k => (k, spec_guard k)) all_kinds.

Fixpoint count_kind (t : table) (k : kind) : nat :=
  match t with
  | [] => O
  | (k', _) :: r => (if kind_eqb k k' then 1 else 0) + count_kind r k
  end.

(** Exactly one entry per kind and every entry equal to the demanded one. *)
Definition table_ok (t : table) : bool :=
  forallb (fun k => Nat.eqb (count_kind t k) 1 &&
                    match lookup t k with Some g => guard_eqb g (spec_guard k) | None => false end)
          all_kinds.

(** ** Handlers *)

Definition set_ver (st : sstate) (v : N) : sstate := {| ver := v; uid := uid st; lvl := lvl st |}.
Definition set_user (st : sstate) (u l : N) : sstate := {| ver := ver st; uid := u; lvl := l |}.

(** Session.hello (device id / language handling is outside the model: the driver sends
    none). *)
Definition hello (st : sstate) (h : hi_f) : sstate * list reply :=
  if ver st =? 0 then
    if hi_parsed h =? 0 then (st, [RMalformed400])
    else if negb (hi_supported h) then (st, [RVersion505])
    else (set_ver st (hi_parsed h), [RCreated201])
  else if hi_empty h || (hi_parsed h =? ver st) then (st, [RCreated201])
  else (st, [ROutOfSeq409]).

(** Session.onLogin: authenticates the session unless validators are missing or the
    record carries the no-login feature. *)
Definition on_login (st : sstate) (u l : N) (nologin missing : bool) : sstate * list reply :=
  if missing then (st, [RValidate300])
  else if nologin then (st, [ROk200])
  else (set_user st u l, [ROk200]).

(** Session.login. *)
Definition login (st : sstate) (l : login_f) : sstate * list reply :=
  match lg_reset l with
  | Some r => (st, [r])
  | None =>
    if negb (uid st =? 0) then (st, [RAlreadyAuth409])
    else match lg_auth l with
         | AUnknownScheme => (st, [RUnknownScheme401])
         | AFailed r => (st, [r])
         | ARec a =>
           match ar_state a with
           | USErr r => (st, [r])
           | USSuspended | USDeleted => (st, [RDenied403])
           | USOk =>
             if ar_challenge a then (st, [RChallenge300])
             else match (if ar_validated a then VSatisfied else lg_vld l) with
                  | VError r => (st, [r])
                  | VMissing => on_login st (ar_uid a) (ar_lvl a) (ar_nologin a) true
                  | VSatisfied => on_login st (ar_uid a) (ar_lvl a) (ar_nologin a) false
                  end
           end
         end
  end.

(** replyCreateUser: [rec] is always nil for a new account (the temporary-auth block of
    Session.acc is skipped when the user id starts with "new"). *)
Definition create_user (st : sstate) (a : acc_f) : sstate * list reply :=
  if ac_login a && negb (uid st =? 0) then (st, [RAlreadyAuth409])
  else match ac_create a with
       | CrRefused r => (st, [r])
       | CrCreated u l nologin missing =>
         if ac_login a then on_login st u l nologin missing
         else (st, [RCreated201])
       end.

(** replyUpdateUser: [au], [al] = msg.AsUser, msg.AuthLvl; [rec] = temporary auth.
    [update_tail]: the part after the acting user id has been chosen. *)
Definition update_tail (st : sstate) (user_id : N) (a : acc_f) : sstate * list reply :=
  let other := match ac_target a with Some t => negb (t =? user_id) | None => false end in
  if other && negb (lvl st =? LRoot) then (st, [RDenied403])
  else
    let user_id' := if other then match ac_target a with Some t => t | None => user_id end
                    else user_id in
    if user_id' =? 0 then (st, [RMalformed400])
    else if ac_state a && negb (lvl st =? LRoot) then (st, [RDenied403])
    else (st, [ac_update a]).

Definition update_user (st : sstate) (au al : N) (rec : option (N * N)) (a : acc_f) : sstate * list reply :=
  match rec with
  | None => if uid st =? 0 then (st, [RDenied403]) else update_tail st au a
  | Some (ru, rl) => if negb (au =? 0) then (st, [RMalformed400]) else update_tail st ru a
  end.

(** Session.acc.  The third component is [true] when the Go code panics (nil interface
    method call after an unknown temporary scheme): the replies already queued stay
    queued, the state is unchanged. *)
Definition acc (st : sstate) (au al : N) (a : acc_f) : sstate * list reply * bool :=
  if ac_new a then (create_user st a, false)
  else match ac_tmp a with
       | TmpNone => (update_user st au al None a, false)
       | t => if negb (uid st =? 0) then (st, [RAlreadyAuth409], false)
              else match t with
                   | TmpUnknown => (st, [RUnknownScheme401], true)
                   | TmpFailed r => (st, [r], false)
                   | TmpRec u l => (update_user st au al (Some (u, l)) a, false)
                   | TmpNone => (st, [], false)
                   end
       end.

(** ** dispatch *)

(** As-user resolution (session.go 480-505): the acting (user, level) of the request, or
    the refusal. *)
Definition resolve (st : sstate) (e : extra) : (N * N) + reply :=
  match ex_asuser e with
  | None => inl (uid st, lvl st)
  | Some u =>
    if negb (lvl st =? LRoot) then inr RDenied403
    else if u =? 0 then inr RMalformed400
    else inl (u, if ex_level e =? LNone then LAuth else ex_level e)
  end.

(** The scrub in Session.publish (694-706): the header is the session's own uid when the
    request is on behalf of someone else, absent otherwise; the client's value is never
    used. *)
Definition scrub_sender (session_uid acting_uid : N) (client : option N) : option N :=
  if acting_uid =? session_uid then None else Some session_uid.

(** What the handler receives. *)
Record call := { c_kind : kind; c_user : N; c_level : N; c_sender : option N }.

Record result := { r_state : sstate; r_replies : list reply; r_call : option call; r_panic : bool }.

Definition refuse (st : sstate) (rs : list reply) : result :=
  {| r_state := st; r_replies := rs; r_call := None; r_panic := false |}.

Definition dispatch (t : table) (st : sstate) (m : msg) : result :=
  match resolve st (m_extra m) with
  | inr r => refuse st [r]
  | inl (au, al) =>
    let k := kind_of m in
    let g := guard_for t k in
    if g_ver g && (ver st =? 0) then refuse st [ROutOfSeq409]
    else if g_user g && (au =? 0) then refuse st [RAuthRequired401]
    else if (g_sver g && (ver st =? 0)) || (g_suser g && (au =? 0)) then refuse st []
    else
      let c sender := Some {| c_kind := k; c_user := au; c_level := al; c_sender := sender |} in
      match m_body m with
      | BHi h => let '(st', rs) := hello st h in
                 {| r_state := st'; r_replies := rs; r_call := c None; r_panic := false |}
      | BLogin l => let '(st', rs) := login st l in
                    {| r_state := st'; r_replies := rs; r_call := c None; r_panic := false |}
      | BAcc a => let '(st', rs, p) := acc st au al a in
                  {| r_state := st'; r_replies := rs; r_call := c None; r_panic := p |}
      | BTopic tk sender lo =>
        {| r_state := (match tk with TSub => if lo then set_user st 0 (lvl st) else st | _ => st end);
           r_replies := [];
           r_call := c (match tk with TPub => scrub_sender (uid st) au sender | _ => None end);
           r_panic := false |}
      end
  end.

(** ** Histories *)

Fixpoint run (t : table) (st : sstate) (ms : list msg) : sstate :=
  match ms with
  | [] => st
  | m :: r => run t (r_state (dispatch t st m)) r
  end.

(** The (user, level) a message grants when it is a fully successful login, or a
    fully successful account creation with login:true. *)
Definition grants (m : msg) : option (N * N) :=
  match m_body m with
  | BLogin l =>
    match lg_reset l, lg_auth l with
    | None, ARec a =>
      match ar_state a with
      | USOk =>
        if ar_challenge a || ar_nologin a then None
        else match (if ar_validated a then VSatisfied else lg_vld l) with
             | VSatisfied => Some (ar_uid a, ar_lvl a)
             | _ => None
             end
      | _ => None
      end
    | _, _ => None
    end
  | BAcc a =>
    if ac_new a && ac_login a then
      match ac_create a with
      | CrCreated u l false false => Some (u, l)
      | _ => None
      end
    else None
  | _ => None
  end.

(** Does the message trigger the log-out side effect of the topic initialisers. *)
Definition logs_out (m : msg) : bool :=
  match m_body m with BTopic TSub _ true => true | _ => false end.

(** The authenticators only vouch for existing users at a real level (validated on the
    implementation by the driver's monitor [auth-outcome-wellformed]). *)
Definition wf_msg (m : msg) : Prop :=
  forall u l, grants m = Some (u, l) -> u <> 0 /\ l <> LNone.

(** Number of steps of a run at which an unauthenticated session becomes authenticated. *)
Fixpoint auth_steps (t : table) (st : sstate) (ms : list msg) : nat :=
  match ms with
  | [] => O
  | m :: r =>
    let st' := r_state (dispatch t st m) in
    ((if (uid st =? 0) && negb (uid st' =? 0) then 1 else 0) + auth_steps t st' r)%nat
  end.

(** Is the request refused by the dispatch level / by the handlers modelled here. *)
Definition refusal (r : reply) : Prop := 400 <= code_of r < 500.
