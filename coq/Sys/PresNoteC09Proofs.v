(* C09 on the presence slice: lemmas about {note} on p2p / group topics with unsubscribed (deleted)
   parties and about the {info} copies routed through the 'me' topics (Sys/Pres.v note_op,
   info_subs_offline, deliver_msg; Sys/PresNoteC09.v for Info.From).

   1. note_silent: a note that is not acceptable - sender without a live (non-deleted) subscription,
      without R (W for typing), seq outside (mark, lastID], detached session sending anything but "recv",
      topic not loaded - leaves the WHOLE state as it was (marks in cache and store, network) and hands
      no frame to anybody.
   2. note_frames_not_origin / adds_note_tag / deliver_skipsid: the originating session gets nothing,
      neither inside the topic nor through 'me'.
   3. net_note_sent / info_end_to_end: over all histories and interleavings, every {info} frame a session
      reads on 'me' comes from a {note} of the history, names that note's sender, was sent by ANOTHER
      session, the receiving session is not attached to the topic of the note, and a typing note
      reaches no session of the typist. *)
From Coq Require Import List NArith ZArith Bool Lia.
From Tinode Require Import Sys.Pres Sys.PresProofs Sys.PresLeak Sys.PresNoteC09.
Import ListNotations.
Open Scope N_scope.

(* ------------------------------------------------------------------ 1. which notes act *)

(* the user has a subscription that is not deleted: a perUser entry (p2p entries stay after an
   unsubscribe, marked deleted; group entries are dropped) *)
Definition live_sub (s : state) (t : tname) (u : N) : bool :=
  match get_top s t with
  | Some x => found t x u && negb (p_deleted (get_pud x u))
  | None => false
  end.

(* what the property demands of a note that may act *)
Definition note_acceptable (s : state) (sid u : N) (t : tname) (w : what) (seq : Z) : bool :=
  match get_top s t with
  | None => false
  | Some x =>
    let p := get_pud x u in
    (sess_on s sid t || (what_eqb w WIRecv && t_loaded x)) &&
    (found t x u && negb (p_deleted p)) &&
    (seq <=? t_lastid x)%Z &&
    match w with
    | WIKp => (seq =? 0)%Z && is_writer (p_mode p)
    | WIRead => (0 <? seq)%Z && is_reader (p_mode p) && (p_read p <? seq)%Z
    | WIRecv => (0 <? seq)%Z && is_reader (p_mode p) && (p_recv p <? seq)%Z
    | _ => false
    end
  end.

Definition silent (s : state) (r : state * list out) : Prop := r = (s, []) \/ r = (s, [Skipped]).

Lemma no_bits_reader : is_reader 0 = false. Proof. reflexivity. Qed.
Lemma no_bits_writer : is_writer 0 = false. Proof. reflexivity. Qed.

Lemma note_silent s sid u t w seq :
  note_acceptable s sid u t w seq = false -> silent s (note_op s sid u t w seq).
Proof.
  unfold note_acceptable, note_op, silent. intros H.
  destruct (sess_on s sid t) eqn:A; cbn [negb andb orb] in *.
  - (* attached *)
    destruct w; cbn [what_eqb negb] in *; try (left; reflexivity);
      match goal with |- context[if ?c then (s, []) else _] => destruct c eqn:C0; [left; reflexivity|] end;
      (destruct (get_top s t) as [x|]; [|left; reflexivity]);
      (destruct (t_lastid x <? seq)%Z eqn:L; [left; reflexivity|]);
      assert (L' : (seq <=? t_lastid x)%Z = true) by lia; rewrite L' in H; cbn [andb] in H;
      (destruct (found t x u) eqn:F; cbn [andb] in H;
       [|cbn [p_deleted blank_pud p_mode p_given p_want]; left; reflexivity]);
      (destruct (p_deleted (get_pud x u)) eqn:D; cbn [negb andb] in H; [left; reflexivity|]).
    + (* read *)
      assert (S0 : (0 <? seq)%Z = true) by lia. rewrite S0 in H. cbn [andb] in H.
      destruct (is_reader (p_mode (get_pud x u))); cbn [negb andb] in *; [|left; reflexivity].
      assert (S1 : (seq <=? p_read (get_pud x u))%Z = true) by lia. rewrite S1. left; reflexivity.
    + (* recv *)
      assert (S0 : (0 <? seq)%Z = true) by lia. rewrite S0 in H. cbn [andb] in H.
      destruct (is_reader (p_mode (get_pud x u))); cbn [negb andb] in *; [|left; reflexivity].
      assert (S1 : (seq <=? p_recv (get_pud x u))%Z = true) by lia. rewrite S1. left; reflexivity.
    + (* kp *)
      assert (S0 : (seq =? 0)%Z = true) by lia. rewrite S0 in H. cbn [andb] in H.
      rewrite H. left; reflexivity.
  - (* not attached: only "recv" travels (through the hub) *)
    destruct w; cbn [what_eqb negb andb orb] in *; try (right; reflexivity).
    match goal with |- context[if ?c then (s, []) else _] => destruct c eqn:C0; [left; reflexivity|] end.
    destruct (get_top s t) as [x|]; [|left; reflexivity].
    destruct (t_loaded x); cbn [negb andb] in *; [|left; reflexivity].
    destruct (t_lastid x <? seq)%Z eqn:L; [left; reflexivity|].
    assert (L' : (seq <=? t_lastid x)%Z = true) by lia. rewrite L' in H. cbn [andb] in H.
    destruct (found t x u) eqn:F; cbn [andb] in H;
      [|cbn [p_deleted blank_pud p_mode p_given p_want]; left; reflexivity].
    destruct (p_deleted (get_pud x u)) eqn:D; cbn [negb andb] in H; [left; reflexivity|].
    assert (S0 : (0 <? seq)%Z = true) by lia. rewrite S0 in H. cbn [andb] in H.
    destruct (is_reader (p_mode (get_pud x u))); cbn [negb andb] in *; [|left; reflexivity].
    assert (S1 : (seq <=? p_recv (get_pud x u))%Z = true) by lia. rewrite S1. left; reflexivity.
Qed.

Lemma unsubscribed_not_acceptable s sid u t w seq :
  live_sub s t u = false -> note_acceptable s sid u t w seq = false.
Proof.
  unfold live_sub, note_acceptable. destruct (get_top s t) as [x|]; [|reflexivity].
  intros ->. rewrite andb_false_r. reflexivity.
Qed.

(* clause "a mark moves only when its user ... sends a note while subscribed with read permission" and
   "every invalid note is dropped without any reply or side effect", p2p and group topics, deleted
   parties included: the step of a {note} from a user without a live subscription changes nothing *)
Lemma step_note_unsubscribed s sid u r w seq :
  live_sub s (resolve u r) u = false -> silent s (step s (Note sid u r w seq)).
Proof.
  intros L. unfold step, step_gen.
  destruct (match sess_user s sid with Some u' => negb (u' =? u) | None => false end); [right; reflexivity|].
  destruct r; [right; reflexivity| |]; apply note_silent, unsubscribed_not_acceptable; exact L.
Qed.

Lemma step_note_silent s sid u r w seq :
  note_acceptable s sid u (resolve u r) w seq = false -> silent s (step s (Note sid u r w seq)).
Proof.
  intros L. unfold step, step_gen.
  destruct (match sess_user s sid with Some u' => negb (u' =? u) | None => false end); [right; reflexivity|].
  destruct r; [right; reflexivity| |]; apply note_silent; exact L.
Qed.

(* ------------------------------------------------------------------ 2. never the originating session *)

Lemma note_frames_not_origin s sid u t w seq sid' user top src w' :
  In (Frame sid' user top src w') (snd (note_op s sid u t w seq)) -> sid' <> sid.
Proof.
  unfold note_op.
  repeat match goal with
         | |- In _ (snd (if ?c then _ else _)) -> _ => destruct c; [simpl; intros H; exfalso; intuition discriminate|]
         end.
  destruct (get_top s t) as [x|]; [|intros []].
  repeat match goal with
         | |- In _ (snd (if ?c then _ else _)) -> _ => destruct c; [intros []|]
         end.
  cbn [snd]. unfold bcast_top_info. intros H. apply in_flat_map in H as [[sid2 uid] [_ H]].
  destruct (sid2 =? sid) eqn:E; [destruct H|].
  repeat match type of H with In _ (if ?c then _ else _) => destruct c; [destruct H|] end.
  destruct H as [H | []]. injection H as <- _ _ _ _. apply N.eqb_neq. exact E.
Qed.

(* what a note puts in flight: SkipSid = the originating session; an {info} names the sender and the topic *)
Definition note_tag (sid u : N) (t : tname) (w : what) (g : msg) : Prop :=
  m_skipsid g = Some sid /\ m_sender g = t /\
  (is_info (m_what g) = true -> m_from g = Some u /\ m_skiptopic g = Some t /\ m_what g = w).

Lemma info_subs_offline_tag t x from w sk g :
  In g (info_subs_offline t x from w sk) ->
  m_skipsid g = sk /\ m_sender g = t /\ m_from g = Some from /\ m_skiptopic g = Some t /\ m_what g = w.
Proof.
  unfold info_subs_offline. intros H. apply in_flat_map in H as [[uid p] [_ H]].
  destruct (p_deleted p || negb (is_presencer (p_mode p)) || negb (is_reader (p_mode p))); [destruct H|].
  destruct H as [<- | []]. simpl. repeat split; reflexivity.
Qed.

Lemma pres_single_offline_tag t uid mode w c sk oo g :
  In g (pres_single_offline t uid mode w c sk oo) -> m_skipsid g = sk /\ m_sender g = t /\ m_what g = w.
Proof.
  unfold pres_single_offline. destruct mode as [m|]; [|intros []].
  destruct (pres_offline_filter m w None); [|intros []]. intros [<- | []]. simpl. repeat split; reflexivity.
Qed.

Lemma adds_note_tag s sid u t w seq : adds s (fst (note_op s sid u t w seq)) (note_tag sid u t w).
Proof.
  unfold note_op.
  repeat match goal with
         | |- adds _ (fst (if ?c then _ else _)) _ => destruct c; [apply adds_refl|]
         end.
  destruct (get_top s t) as [x|]; [|apply adds_refl].
  repeat match goal with
         | |- adds _ (fst (if ?c then _ else _)) _ => destruct c; [apply adds_refl|]
         end.
  cbn [fst]. apply adds_send; [reflexivity|]. apply Forall_app. split.
  - destruct w; try apply Forall_nil; rewrite Forall_forall; intros g Hg;
      apply pres_single_offline_tag in Hg as (A & B & C); unfold note_tag; rewrite A, B, C;
      (split; [reflexivity|split; [reflexivity|intros [=]]]).
  - rewrite Forall_forall. intros g Hg. apply info_subs_offline_tag in Hg as (A & B & C & D & E).
    unfold note_tag. rewrite A, B, C, D, E. auto.
Qed.

(* broadcastToSessions: `if sess.sid == msg.SkipSid { continue }` comes first, for every kind of message *)
Lemma deliver_skipsid s g k user top src w :
  m_skipsid g = Some k -> ~ In (Frame k user top src w) (snd (deliver_msg s g)).
Proof.
  intros K H. unfold deliver_msg in H.
  assert (ME : forall s0 u m w0, ~ In (Frame k user top src w) (bcast_me s0 u m g w0)).
  { intros s0 u m w0 Hin. unfold bcast_me in Hin. apply in_flat_map in Hin as [sid [_ Hin]]. rewrite K in Hin.
    destruct (sid =? k) eqn:E; [destruct Hin|].
    repeat match type of Hin with In _ (if ?c then _ else _) => destruct c; [destruct Hin|] end.
    destruct Hin as [Hin | []]. injection Hin as -> _ _ _ _. rewrite N.eqb_refl in E. discriminate. }
  assert (MI : forall s0 u m, ~ In (Frame k user top src w) (bcast_me_info s0 u m g)).
  { intros s0 u m Hin. unfold bcast_me_info in Hin. apply in_flat_map in Hin as [sid [_ Hin]]. rewrite K in Hin.
    destruct (sid =? k) eqn:E; [destruct Hin|].
    repeat match type of Hin with In _ (if ?c then _ else _) => destruct c; [destruct Hin|] end.
    destruct Hin as [Hin | []]. injection Hin as -> _ _ _ _. rewrite N.eqb_refl in E. discriminate. }
  assert (TO : forall s0 t x w0, ~ In (Frame k user top src w) (bcast_top s0 t x g w0)).
  { intros s0 t x w0 Hin. unfold bcast_top in Hin. apply in_flat_map in Hin as [[sid uid] [_ Hin]]. rewrite K in Hin.
    destruct (sid =? k) eqn:E; [destruct Hin|].
    repeat match type of Hin with In _ (if ?c then _ else _) => destruct c; [destruct Hin|] end.
    destruct Hin as [Hin | []]. injection Hin as -> _ _ _ _. rewrite N.eqb_refl in E. discriminate. }
  assert (TI : forall s0 t x, ~ In (Frame k user top src w) (bcast_top_info_routed s0 t x g)).
  { intros s0 t x Hin. unfold bcast_top_info_routed in Hin. apply in_flat_map in Hin as [[sid uid] [_ Hin]]. rewrite K in Hin.
    destruct (sid =? k) eqn:E; [destruct Hin|].
    repeat match type of Hin with In _ (if ?c then _ else _) => destruct c; [destruct Hin|] end.
    destruct Hin as [Hin | []]. injection Hin as -> _ _ _ _. rewrite N.eqb_refl in E. discriminate. }
  destruct (m_dst g).
  - destruct (get_me s u) as [m|]; [|destruct H]. destruct (is_info (m_what g)); simpl in H; [exact (MI _ _ _ H)|].
    destruct (r_what _); [|destruct H]. destruct (m_local g); [|destruct H]. exact (ME _ _ _ _ H).
  - destruct (get_top s _) as [x|]; [|destruct H]. destruct (negb (t_loaded x)); [destruct H|].
    destruct (is_info (m_what g)); simpl in H; [exact (TI _ _ _ H)|].
    destruct (r_what _); [|destruct H]. destruct (m_local g); [|destruct H]. exact (TO _ _ _ _ H).
  - destruct (get_top s _) as [x|]; [|destruct H]. destruct (negb (t_loaded x)); [destruct H|].
    destruct (is_info (m_what g)); simpl in H; [exact (TI _ _ _ H)|].
    destruct (r_what _); [|destruct H]. destruct (m_local g); [|destruct H]. exact (TO _ _ _ _ H).
Qed.

(* ------------------------------------------------------------------ 3. histories: provenance of every {info} in flight *)

Definition ni (g : msg) : Prop := is_info (m_what g) = false.

Lemma nc_ni g : nc g -> ni g.
Proof. unfold nc, ni. destruct (is_info (m_what g)) eqn:I; [|reflexivity]. rewrite (info_content _ I). discriminate. Qed.

(* an {info} in flight was made by a {note} of the history: SkipSid = that note's session, From = its user,
   SkipTopic = sender = its topic *)
Definition note_sent (h : list op) (g : msg) : Prop :=
  is_info (m_what g) = true ->
  exists sid0 u0 r0 seq0, In (Note sid0 u0 r0 (m_what g) seq0) h /\ r0 <> RMe /\
    m_skipsid g = Some sid0 /\ m_from g = Some u0 /\
    m_skiptopic g = Some (resolve u0 r0) /\ m_sender g = resolve u0 r0.

Lemma ni_note_sent h g : ni g -> note_sent h g.
Proof. unfold ni, note_sent. intros -> [=]. Qed.

Lemma note_sent_mono h1 h2 g : (forall o, In o h1 -> In o h2) -> note_sent h1 g -> note_sent h2 g.
Proof.
  intros S H I. destruct (H I) as (sid0 & u0 & r0 & seq0 & Hin & R). exists sid0, u0, r0, seq0. split; [apply S, Hin | exact R].
Qed.

Lemma pres_subs_online_ni t w src f sk : is_info w = false -> ni (pres_subs_online t w src f sk).
Proof. intros H. exact H. Qed.

Lemma adds_pub_ni s sid u t : adds s (fst (pub_op s sid u t)) ni.
Proof.
  unfold pub_op. destruct (get_top s t) as [x|]; [|apply adds_refl].
  destruct (negb (sess_on s sid t)); [apply adds_refl|].
  destruct (negb (is_writer _)); [apply adds_refl|]. cbn [fst].
  apply adds_send; [reflexivity|]. rewrite Forall_forall. intros g Hg.
  apply pres_subs_offline_shape in Hg as (uid & p & _ & _ & _ & W & _). unfold ni. rewrite W. reflexivity.
Qed.

Lemma adds_delmsg_ni s sid u t h : adds s (fst (delmsg_op s sid u t h)) ni.
Proof.
  unfold delmsg_op. destruct (get_top s t) as [x|]; [|apply adds_refl].
  repeat match goal with
         | |- adds _ (fst (if ?c then (s, _) else _)) _ => destruct c; [apply adds_refl|]
         end.
  destruct (h && has _ mD).
  - cbn [fst]. apply adds_send; [reflexivity|]. apply Forall_cons; [reflexivity|].
    rewrite Forall_forall. intros g Hg.
    apply pres_subs_offline_shape in Hg as (uid & p & _ & _ & _ & W & _). unfold ni. rewrite W. reflexivity.
  - cbn [fst]. apply adds_send; [reflexivity|].
    match goal with |- Forall _ (if ?c then _ else _) => destruct c; [apply Forall_nil|] end.
    apply Forall_cons; [reflexivity|]. rewrite Forall_forall. intros g Hg.
    apply pres_single_offline_tag in Hg as (_ & _ & W). unfold ni. rewrite W. reflexivity.
Qed.

(* THE STEP LEMMA for {info}: only a {note} puts an {info} in flight, tagged with its session, user and topic *)
Lemma step_adds_info s o : zomb_nc s -> adds s (fst (step s o)) (note_sent [o]).
Proof.
  intros Z.
  assert (W : forall s', adds s s' nc -> adds s s' (note_sent [o])).
  { intros s'. apply adds_weaken. intros g Hg. apply ni_note_sent, nc_ni, Hg. }
  assert (W2 : forall s', adds s s' ni -> adds s s' (note_sent [o])).
  { intros s'. apply adds_weaken. intros g Hg. apply ni_note_sent, Hg. }
  destruct o; unfold step; simpl.
  - (* New *)
    destruct (open_sess s sid u bkg) as [[s1 b]|] eqn:O; [|apply adds_refl].
    destruct (get_top s (TGrp g)); [apply adds_refl|].
    destruct (if b then _ else _) as [x2 ms] eqn:P. cbn [fst].
    apply W. apply adds_send; [simpl; apply (s_net_open _ _ _ _ _ _ O)|]. eapply ncs_pair; exact P.
  - (* Att *)
    destruct (open_sess s sid u bkg) as [[s1 b]|] eqn:O; [|apply adds_refl].
    pose proof (s_net_open _ _ _ _ _ _ O) as E.
    destruct r; [apply W, adds_att_me; exact E | apply W, adds_att_p2p; exact E | apply W, adds_att_grp; exact E].
  - (* Det *)
    destruct (sess_user s sid); [|apply adds_refl].
    destruct (sess_on s sid _); [|apply adds_refl]. cbn [fst]. apply W, adds_leave.
  - (* Unsub *)
    destruct (sess_user s sid); [|apply adds_refl]. apply W, adds_unsub.
  - (* Disc *)
    destruct (sess_user s sid); [|apply adds_refl]. cbn [fst].
    apply W. intros g Hg. simpl in Hg. apply (adds_fold_leave _ s sid n g Hg).
  - (* Fg *)
    destruct (get_sess s sid) as [i|]; [|apply adds_refl].
    destruct (negb (ss_bkg i)); [apply adds_refl|]. cbn [fst].
    apply W. intros g Hg. apply (adds_fold_fg _ _ sid (ss_user i) g) in Hg. exact Hg.
  - (* Want *)
    destruct (sess_user s sid); [|apply adds_refl].
    destruct r; [apply adds_refl| |]; apply W, adds_want.
  - (* Given *)
    destruct (sess_user s sid); [|apply adds_refl].
    destruct r; [apply adds_refl| |]; (destruct (n =? v); [apply W, adds_want | apply W, adds_given]).
  - (* Evict *)
    destruct (sess_user s sid); [|apply adds_refl].
    destruct r; [apply adds_refl| |]; apply W, adds_evict.
  - (* Pub *)
    destruct (sess_user s sid); [|apply adds_refl].
    destruct r; [apply adds_refl| |]; apply W2, adds_pub_ni.
  - (* Note *)
    match goal with |- adds _ (fst (if ?c then _ else _)) _ => destruct c; [apply adds_refl|] end.
    destruct r as [|v|g0]; [apply adds_refl| |];
      (eapply adds_weaken; [|apply adds_note_tag]); intros g (A & B & C) I; destruct (C I) as (C1 & C2 & C3);
      [exists sid, u, (RP2P v), seq | exists sid, u, (RGrp g0), seq]; rewrite C3;
      (split; [left; reflexivity|]); (split; [discriminate|]); auto.
  - (* DelMsg *)
    destruct (sess_user s sid); [|apply adds_refl].
    destruct r; [apply adds_refl| |]; apply W2, adds_delmsg_ni.
  - (* Unload *)
    destruct (idle s t); [|apply adds_refl]. cbn [fst].
    apply W. apply adds_send; [apply s_net_drop | apply ncs_timeout].
  - (* UnloadHub *)
    destruct (idle s t); [|apply adds_refl]. cbn [fst]. apply adds_same. simpl. apply s_net_drop.
  - (* UnloadOff *)
    destruct (aget tname_eqb t (s_zomb s)) as [ms|] eqn:A; [|apply adds_refl]. cbn [fst].
    apply W. apply adds_send; [reflexivity|].
    apply (aget_in tname_eqb tname_eqb_eq) in A. unfold zomb_nc in Z. rewrite Forall_forall in Z. exact (Z _ A).
  - (* Deliver *)
    destruct (take_nth i [] (s_net s)) as [[g rest]|] eqn:T; [|apply adds_refl].
    apply W. eapply adds_deliver; exact T.
Qed.

Lemma run_snoc h o : fst (run init (h ++ [o])) = fst (step (fst (run init h)) o).
Proof.
  unfold run. rewrite run_gen_app. simpl. unfold step.
  destruct (step_gen true (fst (run_gen true init h)) o). reflexivity.
Qed.

Lemma net_note_sent h : Forall (note_sent h) (s_net (fst (run init h))).
Proof.
  induction h as [|o r IH] using rev_ind; [constructor|].
  rewrite run_snoc. rewrite Forall_forall in *. intros g Hg.
  assert (R : reach (fst (run init r))) by (exists r; reflexivity).
  destruct (net_prov _ R) as [Z _].
  destruct (step_adds_info _ o Z g Hg) as [Hold | Hnew].
  - eapply note_sent_mono; [|apply IH, Hold]. intros o' Ho. apply in_or_app. now left.
  - eapply note_sent_mono; [|exact Hnew]. intros o' Ho. apply in_or_app. now right.
Qed.

Lemma sess_on_set_net f s sid t : sess_on (set_net f s) sid t = sess_on s sid t.
Proof. unfold sess_on. destruct t; reflexivity. Qed.

(* a frame handed out at a delivery carries the `what` of the delivered message *)
Lemma deliver_frame_what s g sid user top src w :
  In (Frame sid user top src w) (snd (deliver_msg s g)) -> w = m_what g.
Proof.
  intros Hin. unfold deliver_msg in Hin. destruct (m_dst g) as [u'| |].
  - destruct (get_me _ u') as [m|]; [|destruct Hin].
    destruct (is_info (m_what g)); simpl in Hin.
    + unfold bcast_me_info in Hin. apply in_flat_map in Hin as [sid' [_ Hin]].
      repeat match type of Hin with In _ (if ?c then _ else _) => destruct c; [destruct Hin|] end.
      destruct Hin as [E | []]. injection E as _ _ _ _ E. auto.
    + destruct (r_what _) as [w0|] eqn:RW; [|destruct Hin]. destruct (m_local g); [|destruct Hin].
      apply proc_what in RW. subst w0.
      unfold bcast_me in Hin. apply in_flat_map in Hin as [sid' [_ Hin]].
      repeat match type of Hin with In _ (if ?c then _ else _) => destruct c; [destruct Hin|] end.
      destruct Hin as [E | []]. injection E as _ _ _ _ E. auto.
  - destruct (get_top _ _) as [x|]; [|destruct Hin]. destruct (negb (t_loaded x)); [destruct Hin|].
    destruct (is_info (m_what g)); simpl in Hin.
    + unfold bcast_top_info_routed in Hin. apply in_flat_map in Hin as [[sid' uid'] [_ Hin]].
      repeat match type of Hin with In _ (if ?c then _ else _) => destruct c; [destruct Hin|] end.
      destruct Hin as [E | []]. injection E as _ _ _ _ E. auto.
    + destruct (r_reply _); simpl in Hin; (destruct (r_what _) as [w0|] eqn:RW; [|destruct Hin]); (destruct (m_local g); [|destruct Hin]);
        apply proc_what in RW; subst w0;
        unfold bcast_top in Hin; apply in_flat_map in Hin as [[sid' uid'] [_ Hin]];
        repeat match type of Hin with In _ (if ?c then _ else _) => destruct c; [destruct Hin|] end;
        destruct Hin as [E | []]; injection E as _ _ _ _ E; auto.
  - destruct (get_top _ _) as [x|]; [|destruct Hin]. destruct (negb (t_loaded x)); [destruct Hin|].
    destruct (is_info (m_what g)); simpl in Hin.
    + unfold bcast_top_info_routed in Hin. apply in_flat_map in Hin as [[sid' uid'] [_ Hin]].
      repeat match type of Hin with In _ (if ?c then _ else _) => destruct c; [destruct Hin|] end.
      destruct Hin as [E | []]. injection E as _ _ _ _ E. auto.
    + destruct (r_reply _); simpl in Hin; (destruct (r_what _) as [w0|] eqn:RW; [|destruct Hin]); (destruct (m_local g); [|destruct Hin]);
        apply proc_what in RW; subst w0;
        unfold bcast_top in Hin; apply in_flat_map in Hin as [[sid' uid'] [_ Hin]];
        repeat match type of Hin with In _ (if ?c then _ else _) => destruct c; [destruct Hin|] end;
        destruct Hin as [E | []]; injection E as _ _ _ _ E; auto.
Qed.

(* END TO END, all histories and interleavings.  An {info} frame read by session [sid] of [user] when the
   i-th in-flight message is delivered, with From = f: a {note} of the same kind is in the history, sent by
   user f through ANOTHER session, about a topic this session is not attached to; the frame arrives on the
   user's own 'me'; a typing note never reaches a session of the typist. *)
Lemma info_end_to_end h i g rest sid user top src w f :
  take_nth i [] (s_net (fst (run init h))) = Some (g, rest) ->
  In (Frame sid user top src w, f) (snd (step_from (fst (run init h)) (Deliver i))) ->
  is_info w = true ->
  exists sid0 u0 r0 seq0,
    In (Note sid0 u0 r0 w seq0) h /\ r0 <> RMe /\ f = Some u0 /\ sid <> sid0 /\
    sess_on (fst (run init h)) sid (resolve u0 r0) = false /\
    (w = WIKp -> user <> u0) /\ top = TMe user.
Proof.
  set (s := fst (run init h)). intros T Hin I.
  assert (R : reach s) by (exists h; reflexivity).
  unfold step_from in Hin. destruct (step s (Deliver i)) as [s1 o1] eqn:ES. cbn [snd] in Hin.
  apply in_map_iff in Hin as [fr [E Hin]]. injection E as -> <-.
  unfold step in ES. simpl in ES. rewrite T in ES. unfold info_from. rewrite T.
  assert (Hin' : In (Frame sid user top src w) (snd (deliver_msg (set_net (fun _ => rest) s) g))) by (rewrite ES; exact Hin).
  clear ES Hin.
  pose proof (take_nth_elem _ _ _ _ _ T) as Hg.
  (* the delivered message is an {info} *)
  assert (IG : is_info (m_what g) = true /\ exists uid, m_dst g = TMe uid).
  { rewrite <- (deliver_frame_what _ _ _ _ _ _ _ Hin'). split; [exact I|].
    eapply info_only_to_me; eauto. rewrite <- (deliver_frame_what _ _ _ _ _ _ _ Hin'). exact I. }
  destruct IG as [IG [uid D]].
  pose proof (net_note_sent h) as NS. rewrite Forall_forall in NS. fold s in NS.
  destruct (NS g Hg IG) as (sid0 & u0 & r0 & seq0 & HN & NM & SK & FR & ST & _).
  unfold deliver_msg in Hin'. rewrite D, IG in Hin'.
  destruct (get_me _ uid) as [m|]; [|destruct Hin']. cbn [snd] in Hin'.
  unfold bcast_me_info in Hin'. apply in_flat_map in Hin' as [sid' [_ Hin']].
  rewrite SK, ST, FR in Hin'.
  destruct (sid' =? sid0) eqn:E1; [destruct Hin'|].
  rewrite sess_on_set_net in Hin'.
  destruct (sess_on s sid' (resolve u0 r0)) eqn:E2; [destruct Hin'|].
  destruct (what_eqb (m_what g) WIKp && (u0 =? uid)) eqn:E3; [destruct Hin'|].
  destruct Hin' as [E | []]. injection E as -> -> <- _ <-.
  exists sid0, u0, r0, seq0. repeat split; auto.
  - apply N.eqb_neq. exact E1.
  - intros EW. rewrite EW in E3. simpl in E3. apply N.eqb_neq in E3. congruence.
Qed.

(* inside the topic the frame names the user the note was sent as *)
Lemma note_from_sender s sid u r w seq fr f :
  In (fr, f) (snd (step_from s (Note sid u r w seq))) -> f = Some u.
Proof.
  unfold step_from. destruct (step s (Note sid u r w seq)) as [s1 o1]. cbn [snd info_from].
  intros H. apply in_map_iff in H as [x [E _]]. injection E as _ <-. reflexivity.
Qed.

(* the labelled run projects to the run of Sys/Pres.v: nothing but the label was added *)
Lemma step_from_proj s o : fst (step_from s o) = fst (step s o) /\ map fst (snd (step_from s o)) = snd (step s o).
Proof.
  unfold step_from. destruct (step s o) as [s1 o1]. cbn [fst snd]. split; [reflexivity|].
  rewrite map_map. simpl. apply map_id.
Qed.

Lemma run_from_proj h : forall s, fst (run_from s h) = fst (run s h) /\ map fst (snd (run_from s h)) = snd (run s h).
Proof.
  induction h as [|o r IH]; intros s; [split; reflexivity|].
  simpl. destruct (step_from_proj s o) as [A B].
  destruct (step_from s o) as [s1 o1]. unfold run, step in *. simpl in *.
  destruct (step_gen true s o) as [s1' o1']. simpl in A, B. subst s1'.
  destruct (IH s1) as [C D]. destruct (run_from s1 r) as [s2 o2]. unfold run in *.
  destruct (run_gen true s1 r) as [s2' o2']. simpl in *. subst. split; [reflexivity|].
  rewrite map_app. reflexivity.
Qed.

Lemma drain_from_proj fuel : forall s, fst (drain_from fuel s) = fst (drain fuel s) /\ map fst (snd (drain_from fuel s)) = snd (drain fuel s).
Proof.
  induction fuel as [|f IH]; intros s; [split; reflexivity|].
  cbn [drain_from drain]. destruct (s_net s) eqn:NE; [split; reflexivity|].
  destruct (step_from_proj s (Deliver 0)) as [A B].
  destruct (step_from s (Deliver 0)) as [s1 o1]. destruct (step s (Deliver 0)) as [s1' o1']. cbn [fst snd] in A, B. subst s1' o1'.
  destruct (IH s1) as [C E]. destruct (drain_from f s1) as [s2 o2]. destruct (drain f s1) as [s2' o2']. cbn [fst snd] in *. subst.
  split; [reflexivity|]. apply map_app.
Qed.

(* ------------------------------------------------------------------ the two seeded scenarios, in the model *)

Definition D := Deliver 0.

(* users 1 and 2 chat; user 1 unsubscribes; the topic stays loaded (session 2 of user 2 is attached); user 1's
   detached session 1 then acknowledges message 1: nothing moves, nothing is sent *)
Definition h_unsub_recv : list op :=
  [Att 3 1 RMe false; Att 4 2 RMe false; Att 1 1 (RP2P 2) false; D; D; D; D; Att 2 2 (RP2P 1) false;
   Pub 2 (RP2P 1); D; D; Unsub 1 (RP2P 2); D; D].

Lemma unsub_recv_silent :
  let s := fst (run init h_unsub_recv) in
  s_net s = [] /\ live_sub s (TP2P 1 2) 1 = false /\
  (exists x, get_top s (TP2P 1 2) = Some x /\ t_loaded x = true /\ t_lastid x = 1%Z /\
             is_reader (p_mode (get_pud x 1)) = true /\ p_recv (get_pud x 1) = 0%Z) /\
  step s (Note 1 1 (RP2P 2) WIRecv 1) = (s, []).
Proof. vm_compute. repeat split; try reflexivity. eexists. repeat split; reflexivity. Qed.

(* user 1 keeps session 3 on 'me' and detaches session 1 from the topic; session 3 acknowledges message 1 (a "recv"
   from a session that is not attached: routed by the hub to the loaded topic).  Session 2 of user 2, attached to the
   topic, reads the {info} with From = user 1; session 3 itself reads no {info} at all, neither from the topic nor
   back through its own 'me' (the copy routed to me(1) carries SkipSid = session 3) *)
Definition h_detached_recv : list op :=
  [Att 3 1 RMe false; Att 4 2 RMe false; Att 1 1 (RP2P 2) false; D; D; D; D; Att 2 2 (RP2P 1) false;
   Pub 2 (RP2P 1); D; D; Det 1 (RP2P 2); Note 3 1 (RP2P 2) WIRecv 1; D; D; D; D].

(* decided by computation on the goal side (vm_compute leaves a VM cast for Qed; `vm_compute in H` would make Qed
   re-do the whole run with the lazy machine) *)
Definition no_info_to (k : N) (l : list (out * option N)) : bool :=
  forallb (fun p => match fst p with
                    | Frame sid _ _ _ w => negb ((sid =? k) && is_info w)
                    | _ => true
                    end) l.

Lemma detached_recv_check : no_info_to 3 (snd (run_from init h_detached_recv)) = true.
Proof. vm_compute. reflexivity. Qed.

Lemma detached_recv_not_echoed :
  (forall user top src w f, ~ In (Frame 3 user top src w, f) (snd (run_from init h_detached_recv)) \/ is_info w = false) /\
  In (Frame 2 2 (TP2P 1 2) (TMe 1) WIRecv, Some 1) (snd (run_from init h_detached_recv)) /\
  s_net (fst (run_from init h_detached_recv)) = [].
Proof.
  split; [|split].
  - intros user top src w f. destruct (is_info w) eqn:I; [left|right; reflexivity].
    intros Hin. pose proof detached_recv_check as C. unfold no_info_to in C.
    rewrite forallb_forall in C. specialize (C _ Hin). cbn [fst] in C. rewrite N.eqb_refl, I in C. discriminate C.
  - vm_compute. repeat (first [left; reflexivity | right]).
  - vm_compute. reflexivity.
Qed.
