(* Proofs about Sys/TopicImsC01.v: the numbers a description query shows do not depend on
   its options; the wrapper moves the base (group-topic) state exactly as the base model does. *)
From Coq Require Import ZArith NArith List Bool Lia.
From Tinode Require Import Base.Util Pure.Acs Sys.Topic Sys.TopicTac Sys.TopicFrame Sys.TopicNum Sys.TopicOut
  Sys.TopicNumThm Sys.TopicImsC01.
Import ListNotations.
Open Scope Z_scope.

(* ------------------------------------------------------------------ *)
(* the handler                                                          *)

(* a reader is shown seq = lastID (and his marks), whatever the options *)
Lemma get_desc_ims_reader c cpub sid u i p :
  alookup u (c_users c) = Some p -> is_reader (pud_mode p) = true ->
  get_desc_ims c cpub sid u i false =
  [(sid, FDesc (p_want p) (p_given p) (c_lastid c) (p_read p) (Z.max (p_recv p) (p_read p))
               (Z.max (p_delid p) (c_delid c)) true (ims_absent_c01i i) (if if_updated_c01i i then cpub else 0%N))].
Proof. intros Hu Hr. unfold get_desc_ims. rewrite Hu, Hr. reflexivity. Qed.

(* the numbering slice of the answer is that of the option-less answer of the base model *)
Definition nums_c01i (o : iout) : list (N * option (Z * Z * Z * Z)) :=
  map (fun e => (fst e, iframe_desc_nums (snd e))) o.

Lemma get_desc_ims_nums s c n cpub sid u i :
  nums_c01i (get_desc_ims c cpub sid u i false) = nums_c01i (lift_c01i (h_out (get_desc s c n sid u))).
Proof. unfold get_desc_ims, get_desc. repeat break_match; reflexivity. Qed.

(* every frame of the answer that shows numbers shows lastID *)
Lemma get_desc_ims_current c cpub sid u i bad e seq rd rc dl :
  In e (get_desc_ims c cpub sid u i bad) -> iframe_desc_nums (snd e) = Some (seq, rd, rc, dl) -> seq = c_lastid c.
Proof.
  unfold get_desc_ims. repeat break_match; intros [<-|[]]; cbn; intros H; try discriminate; now inv H.
Qed.

Lemma get_desc_ims_sid c cpub sid u i bad e : In e (get_desc_ims c cpub sid u i bad) -> fst e = sid.
Proof. unfold get_desc_ims. repeat break_match; intros [<-|[]]; reflexivity. Qed.

(* after an accepted publish a description query with ANY option shows the acknowledged number *)
Lemma publish_then_desc_ims f s c n sid u content noecho sid' n' :
  acked (h_out (publish f s c n sid u content noecho)) sid' n' ->
  forall cpub sid2 u2 i p,
    alookup u2 (c_users (h_ca (publish f s c n sid u content noecho))) = Some p -> is_reader (pud_mode p) = true ->
    exists w g rd rc dl cr pb,
      get_desc_ims (h_ca (publish f s c n sid u content noecho)) cpub sid2 u2 i false = [(sid2, FDesc w g n' rd rc dl true cr pb)].
Proof.
  intros Ha cpub sid2 u2 i p Hu Hr.
  pose proof (publish_cases f s c n sid u content noecho) as PC. cbv zeta in PC.
  destruct PC as [(_ & _ & _ & _ & NA & _)|(L & _ & _ & _ & HO)].
  - exfalso. exact (NA _ _ Ha).
  - assert (n' = c_lastid c + 1) as ->.
    { unfold acked in Ha. rewrite HO in Ha. destruct Ha as [E|Hin]; [now inv E|].
      apply in_app_or in Hin. destruct Hin as [Hin|Hin].
      - apply fanout_data_frames in Hin. discriminate.
      - unfold push_out in Hin. destruct (push_rcpt (h_ca (publish f s c n sid u content noecho))); cbn in Hin; [destruct Hin|].
        destruct Hin as [E|[]]. discriminate. }
    rewrite (get_desc_ims_reader _ cpub sid2 u2 i p Hu Hr), L. repeat eexists.
Qed.

(* ------------------------------------------------------------------ *)
(* the wrapper moves the base state as the base model does              *)

Definition beq_c01i (x y : state) : Prop := st x = st y /\ ca x = ca y.
Lemma beq_refl x : beq_c01i x x. Proof. split; reflexivity. Qed.

Section Sim.
Variable dr : Z -> list (Z * Z) -> option (list (Z * Z)).
Variable nr : list (Z * Z) -> list (Z * Z).
Variable sm : sessmap.

(* the handlers never read the call counter of the previous request *)
Lemma step_beq f x y o : beq_c01i x y -> step dr nr sm f x o = step dr nr sm f y o.
Proof. destruct x as [s c n], y as [s' c' n']. intros [E1 E2]. cbn in E1, E2. subst s' c'. reflexivity. Qed.

Lemma step_f_beq x y fo : beq_c01i x y -> step_f dr nr sm x fo = step_f dr nr sm y fo.
Proof. intros H. unfold step_f. rewrite (step_beq (fst fo) x y (snd fo) H). reflexivity. Qed.

(* {get desc} changes neither the store nor the cache *)
Lemma step_getdesc_noop f x sid : beq_c01i (fst (step dr nr sm f x (OGetDesc sid))) x.
Proof.
  destruct x as [s cx n]. unfold step. cbn [st ca].
  destruct cx as [c|]; cbn [negb].
  - destruct (attached c sid); cbn [negb fst st ca].
    + split; cbn [st ca]; unfold get_desc; repeat break_match; reflexivity.
    + split; cbn [st ca]; [apply offline_get_desc_frame|reflexivity].
  - cbn [fst st ca]. split; cbn [st ca]; [apply offline_get_desc_frame|reflexivity].
Qed.

(* a {get desc} of a session that is not attached shows no numbers *)
Definition not_reader_desc_c01i (fr : frame) : bool := match fr with MetaDesc _ _ _ _ _ _ r => negb r | _ => true end.
Lemma step_getdesc_offline f x sid :
  is_attached_c01i x sid = false ->
  forall e, In e (snd (step dr nr sm f x (OGetDesc sid))) -> not_reader_desc_c01i (snd e) = true.
Proof.
  destruct x as [s cx n]. unfold is_attached_c01i, step. cbn [st ca]. intros NA.
  assert (forall e, In e (o_out (offline_get_desc f s sid (sess_uid sm sid))) -> not_reader_desc_c01i (snd e) = true) as K.
  { intros e. unfold offline_get_desc. repeat break_match; cbn [o_out]; intros [<-|[]]; reflexivity. }
  destruct cx as [c|]; [rewrite NA|]; cbn [negb snd]; exact K.
Qed.

Lemma istep_base f x o :
  beq_c01i (ibase (fst (istep dr nr sm f x o))) (fst (step dr nr sm f (ibase x) (base_op_c01i o))).
Proof.
  destruct o; unfold istep; cbn [base_op_c01i].
  - destruct (step dr nr sm f (ibase x) o) as [b1 o1]. apply beq_refl.
  - destruct (step dr nr sm f (ibase x) (OGetDesc sid)) as [b1 o1]. apply beq_refl.
  - destruct (step dr nr sm f (ibase x) (OSub sid want bkg)) as [b1 o1]. apply beq_refl.
  - pose proof (step_getdesc_noop f (ibase x) sid) as [E1 E2].
    assert (forall y, ibase y = ibase x -> beq_c01i (ibase y) (fst (step dr nr sm f (ibase x) (OGetDesc sid)))) as K.
    { intros y ->. split; symmetry; assumption. }
    repeat break_match; cbn [fst]; apply K; reflexivity.
Qed.

Lemma istep_f_base x fo :
  beq_c01i (ibase (fst (istep_f dr nr sm x fo)))
           (fst (step_f dr nr sm (ibase x) (fst fo, base_op_c01i (snd fo)))).
Proof.
  unfold istep_f, step_f. cbn [fst snd].
  pose proof (istep_base (fst fo) x (snd fo)) as [E1 E2].
  destruct (istep dr nr sm (fst fo) x (snd fo)) as [x1 o1].
  destruct (step dr nr sm (fst fo) (ibase x) (base_op_c01i (snd fo))) as [b1 p1].
  cbn [fst] in *. destruct (fst fo); cbn [fst ibase]; split; cbn [st ca]; auto.
Qed.

Definition base_hist_c01i (h : list (fault * iop)) : list (fault * op) :=
  map (fun fo => (fst fo, base_op_c01i (snd fo))) h.

Lemma irun_base h : forall x b, beq_c01i (ibase x) b ->
  beq_c01i (ibase (fst (irun dr nr sm x h))) (fst (run dr nr sm b (base_hist_c01i h))).
Proof.
  induction h as [|fo r IH]; intros x b E; cbn [irun run base_hist_c01i map fst].
  - exact E.
  - pose proof (istep_f_base x fo) as E1.
    rewrite (step_f_beq (ibase x) b _ E) in E1.
    destruct (istep_f dr nr sm x fo) as [x1 o1].
    destruct (step_f dr nr sm b (fst fo, base_op_c01i (snd fo))) as [b1 p1].
    cbn [fst] in E1. specialize (IH x1 b1 E1).
    destruct (irun dr nr sm x1 r) as [x2 os]. fold (base_hist_c01i r) in *.
    destruct (run dr nr sm b1 (base_hist_c01i r)) as [b2 ps]. exact IH.
Qed.

(* every answer computed with options shows the lastID of the resulting cache *)
Lemma istep_fdesc_current f x o sid w g seq rd rc dl cr pb :
  In (sid, FDesc w g seq rd rc dl true cr pb) (snd (istep dr nr sm f x o)) ->
  exists c, ca (ibase (fst (istep dr nr sm f x o))) = Some c /\ seq = c_lastid c.
Proof.
  assert (forall o1, ~ In (sid, FDesc w g seq rd rc dl true cr pb) (lift_c01i o1)) as NL.
  { intros o1 H. unfold lift_c01i in H. apply in_map_iff in H. destruct H as (e & E & _). discriminate. }
  destruct o; unfold istep.
  - destruct (step dr nr sm f (ibase x) o) as [b1 o1]. cbn [snd]. intros H. exfalso. exact (NL _ H).
  - destruct (step dr nr sm f (ibase x) (OGetDesc sid0)) as [b1 o1] eqn:ES. cbn [fst snd ibase].
    pose proof (step_getdesc_offline f (ibase x) sid0) as OFF. rewrite ES in OFF. cbn [snd] in OFF.
    assert (forall sp, ~ In (sid, FDesc w g seq rd rc dl true cr pb) (lift_offline_c01i sp o1) \/ is_attached_c01i (ibase x) sid0 = true) as NO.
    { intros sp. destruct (is_attached_c01i (ibase x) sid0) eqn:IA; [now right|left].
      intros H. unfold lift_offline_c01i in H. apply in_map_iff in H. destruct H as (e & E & Hin).
      specialize (OFF eq_refl e Hin). destruct (snd e); try discriminate. inv E. cbn in OFF. discriminate. }
    unfold is_attached_c01i in NO.
    destruct (ca (ibase x)) as [c|] eqn:EC; [|intros H; exfalso; destruct (NO (s_pub x)) as [K|K]; [exact (K H)|discriminate]].
    destruct (attached c sid0) eqn:AT; [|intros H; exfalso; destruct (NO (s_pub x)) as [K|K]; [exact (K H)|discriminate]].
    intros H. exists c. split.
    + pose proof (step_getdesc_noop f (ibase x) sid0) as [_ E2]. rewrite ES in E2. cbn [fst] in E2. congruence.
    + eapply get_desc_ims_current; [exact H|reflexivity].
  - destruct (step dr nr sm f (ibase x) (OSub sid0 want bkg)) as [b1 o1]. cbn [fst snd ibase].
    intros H. apply in_app_or in H. destruct H as [H|H]; [exfalso; exact (NL _ H)|].
    destruct (sub_ok_c01i sid0 o1); [|destruct H].
    destruct (ca b1) as [c1|]; [|destruct H].
    exists c1. split; [reflexivity|]. eapply get_desc_ims_current; [exact H|reflexivity].
  - repeat break_match; cbn [snd]; intros [E|[]]; discriminate.
Qed.
End Sim.

(* non-vacuity / regression witness: publish, move t.updated, then query with every option *)
Definition w_store_c01i : store :=
  ad_sub_create (ad_sub_create (mkStore true 0 0 0 47 0 [] [] [] [(1%N, 47%N); (2%N, 47%N)]) 1%N 255%N 255%N) 2%N 47%N 47%N.
Definition w_hist_c01i : list (fault * iop) :=
  [(NoFault, IBase (OSub 1 [] false)); (NoFault, ISubDesc 2 [] false ImsNotBefore false);
   (NoFault, IBase (OPub 1 7 false)); (NoFault, ISetPub 1 5); (NoFault, IBase (OPub 2 8 false));
   (NoFault, IGetDesc 2 ImsAbsent false); (NoFault, IGetDesc 2 ImsBefore false); (NoFault, IGetDesc 2 ImsNotBefore false);
   (NoFault, IGetDesc 1 ImsNotBefore true)].
Definition w_descs_c01i : list (list (N * option (Z * Z * Z * Z))) :=
  map nums_c01i (snd (irun (fun _ _ => None) (fun x => x) [(1%N, 1%N); (2%N, 2%N)]
                           (mkIS (mkState w_store_c01i None 0) 0 0 0) w_hist_c01i)).
Lemma w_descs_c01i_ok :
  nth 1 w_descs_c01i [] = [(2%N, None); (2%N, Some (0, 0, 0, 0))] /\
  nth 5 w_descs_c01i [] = [(2%N, Some (2, 2, 2, 0))] /\
  nth 6 w_descs_c01i [] = [(2%N, Some (2, 2, 2, 0))] /\
  nth 7 w_descs_c01i [] = [(2%N, Some (2, 2, 2, 0))] /\
  nth 8 w_descs_c01i [] = [(1%N, None)].
Proof. vm_compute. repeat split; reflexivity. Qed.
