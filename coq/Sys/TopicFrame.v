(* Frame lemmas: which parts of the store and of the cache each handler of the
   topic model can change.  Everything else in the proofs builds on these. *)
From Coq Require Import ZArith NArith List Bool Lia.
From Tinode Require Import Base.Util Pure.Acs Sys.Topic Sys.TopicTac.
Import ListNotations.
Open Scope Z_scope.

(* store: the permission handlers touch only subscription rows, the owner column
   and (on unsubscribe) the user's own deletion-log rows *)
Definition sframe (s s' : store) : Prop :=
  t_exists s' = t_exists s /\ t_seqid s' = t_seqid s /\ t_delid s' = t_delid s /\
  t_auth s' = t_auth s /\ t_anon s' = t_anon s /\ msgs s' = msgs s /\ users s' = users s.
(* cache: counters and defaults untouched *)
Definition cframe (c c' : cache) : Prop :=
  c_lastid c' = c_lastid c /\ c_delid c' = c_delid c /\ c_auth c' = c_auth c /\ c_anon c' = c_anon c.

Lemma sframe_refl s : sframe s s. Proof. repeat split. Qed.
Lemma cframe_refl c : cframe c c. Proof. repeat split. Qed.
Lemma sframe_trans a b c : sframe a b -> sframe b c -> sframe a c.
Proof. unfold sframe; intuition congruence. Qed.
Lemma cframe_trans a b c : cframe a b -> cframe b c -> cframe a c.
Proof. unfold cframe; intuition congruence. Qed.

Lemma sframe_subs f s : sframe s (st_subs f s). Proof. repeat split. Qed.
Lemma sframe_owner v s : sframe s (st_owner v s). Proof. repeat split. Qed.
Lemma sframe_dellog f s : sframe s (st_dellog f s). Proof. repeat split. Qed.
Lemma sframe_sub_create s u w g : sframe s (ad_sub_create s u w g).
Proof. unfold ad_sub_create. repeat break_match; repeat split. Qed.
Lemma sframe_subs_update s u up : sframe s (ad_subs_update s u up).
Proof. unfold ad_subs_update. break_match; repeat split. Qed.
Lemma sframe_subs_delete s u s' : ad_subs_delete s u = Some s' -> sframe s s'.
Proof. unfold ad_subs_delete. break_match; intros H; inv H. repeat split. Qed.

Lemma cframe_users f c : cframe c (c_set_users f c). Proof. repeat split. Qed.
Lemma cframe_sess f c : cframe c (c_set_sess f c). Proof. repeat split. Qed.
Lemma cframe_owner v c : cframe c (c_set_owner v c). Proof. repeat split. Qed.

Lemma evict_frame c u b k c' o : evict_user c u b k = (c', o) -> cframe c c'.
Proof. unfold evict_user. intros H. inv H. repeat break_match; repeat split. Qed.

#[export] Hint Resolve sframe_refl cframe_refl sframe_subs sframe_owner sframe_dellog sframe_sub_create
  sframe_subs_update cframe_users cframe_sess cframe_owner : frame.

Ltac frame_post :=
  repeat match goal with
         | H : evict_user _ _ _ _ = (_, _) |- _ => apply evict_frame in H
         | H : ad_subs_delete _ _ = Some _ |- _ => apply sframe_subs_delete in H
         end.

Ltac frame_solve :=
  cbn [fst snd h_st h_ca h_n h_out o_st o_n o_out]; frame_post;
  first [ split; [solve_sframe | solve_cframe] ]
with solve_sframe :=
  first [ assumption | apply sframe_refl
        | eapply sframe_trans; [| first [apply sframe_subs | apply sframe_owner | apply sframe_dellog
                                         | apply sframe_sub_create | apply sframe_subs_update | eassumption]]; solve_sframe ]
with solve_cframe :=
  first [ assumption | apply cframe_refl
        | eapply cframe_trans; [| first [apply cframe_users | apply cframe_sess | apply cframe_owner | eassumption]]; solve_cframe ].

Definition hframe (s : store) (c : cache) (h : hres) : Prop := sframe s (h_st h) /\ cframe c (h_ca h).

Lemma tus_frame f s c n sid u want nb : hframe s c (fst (this_user_sub f s c n sid u want nb)).
Proof.
  unfold this_user_sub, hframe.
  repeat break_match; frame_solve.
Qed.

Lemma aus_frame f s c n sid u target mode : hframe s c (fst (another_user_sub f s c n sid u target mode)).
Proof.
  unfold another_user_sub, hframe.
  repeat break_match; frame_solve.
Qed.

Lemma note_frame f s c n sid u what seq : hframe s c (note f s c n sid u what seq).
Proof. unfold note, hframe. repeat break_match; frame_solve. Qed.

Lemma get_data_frame f s c n sid u a b l : hframe s c (get_data f s c n sid u a b l).
Proof. unfold get_data, hframe. repeat break_match; frame_solve. Qed.
Lemma get_desc_frame s c n sid u : hframe s c (get_desc s c n sid u).
Proof. unfold get_desc, hframe. repeat break_match; frame_solve. Qed.
Lemma get_sub_frame f s c n sid u : hframe s c (get_sub f s c n sid u).
Proof. unfold get_sub, hframe. repeat break_match; frame_solve. Qed.
Lemma get_del_frame nr f s c n sid u a b l : hframe s c (get_del nr f s c n sid u a b l).
Proof. unfold get_del, hframe. repeat break_match; frame_solve. Qed.

Lemma del_sub_frame f s c n sid u t : hframe s c (del_sub f s c n sid u t).
Proof. unfold del_sub, hframe. repeat break_match; repeat break_match_hyp;
  repeat match goal with H : (_, _) = (_, _) |- _ => inv H end; frame_solve. Qed.
Lemma leave_unsub_frame f s c n sid u : hframe s c (leave_unsub f s c n sid u).
Proof. unfold leave_unsub, hframe. repeat break_match; frame_solve. Qed.
Lemma leave_frame c sid u : cframe c (fst (leave c sid u)).
Proof. unfold leave. repeat break_match; cbn [fst]; solve_cframe. Qed.

Lemma sub_reply_frame f s c n sid u want bkg : hframe s c (sub_reply f s c n sid u want bkg).
Proof.
  unfold sub_reply.
  pose proof (tus_frame f s c n sid u want
                (match alookup u (c_users c) with Some _ => false | None => true end)) as [Hs Hc].
  destruct (this_user_sub f s c n sid u want _) as [h r]. cbn [fst] in *.
  unfold hframe. repeat break_match; frame_solve.
Qed.

Lemma set_sub_frame f s c n sid u target mode : hframe s c (set_sub f s c n sid u target mode).
Proof.
  unfold set_sub.
  pose proof (tus_frame f s c n sid u mode false) as [Hs1 Hc1].
  pose proof (aus_frame f s c n sid u target mode) as [Hs2 Hc2].
  destruct ((target =? 0)%N || (target =? u)%N);
    [destruct (this_user_sub f s c n sid u mode false) as [h r]
    |destruct (another_user_sub f s c n sid u target mode) as [h r]];
    cbn [fst] in *; unfold hframe; repeat break_match; frame_solve.
Qed.

Lemma offline_get_desc_frame f s sid u : o_st (offline_get_desc f s sid u) = s.
Proof. unfold offline_get_desc. repeat break_match; reflexivity. Qed.
Lemma offline_get_sub_frame f s sid u : o_st (offline_get_sub f s sid u) = s.
Proof. unfold offline_get_sub. repeat break_match; reflexivity. Qed.
Lemma offline_set_sub_frame f s sid u t m : sframe s (o_st (offline_set_sub f s sid u t m)).
Proof. unfold offline_set_sub. repeat break_match; cbn [o_st]; solve_sframe. Qed.
