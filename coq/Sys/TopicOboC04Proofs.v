(* C04, layer 2, acting on behalf of another user: proofs about Sys/TopicOboC04.v.

   1. who a request is executed as (Session.dispatch)
   2. one obo request = one specification transition attributed to the ACTING user; every history
   3. the answers of {get data} / {get del} and the effect of {del msg} depend on the acting
      user only: not on the session, not on the session's own user
   4. {get data} / {get del} after any obo history, in terms of the specification *)
From Coq Require Import ZArith NArith List Bool Lia Sorted.
From Tinode Require Import Base.Util Pure.Acs Pure.Ranges Pure.RangesProofs Sys.Topic Sys.TopicTac Sys.TopicFrame
  Sys.TopicNum Sys.TopicNumThm Sys.TopicMeta Sys.TopicInst Sys.TopicHist Sys.TopicHistProofs Sys.TopicHistInst Sys.TopicHistThm
  Sys.TopicOboC04.
Import ListNotations.
Open Scope Z_scope.

(* ------------------------------------------------------------------ *)
(* 1. dispatch                                                          *)

Lemma sess_uid_as sm sid u : sess_uid (sm_as_c04 sm sid u) sid = u.
Proof. unfold sess_uid, sm_as_c04. cbn [alookup]. rewrite N.eqb_refl. reflexivity. Qed.

Lemma sess_uid_as_other sm sid u sid' : sid' <> sid -> sess_uid (sm_as_c04 sm sid u) sid' = sess_uid sm sid'.
Proof.
  intros H. unfold sess_uid, sm_as_c04. cbn [alookup].
  replace (N.eqb sid' sid) with false by (symmetry; apply N.eqb_neq; exact H). reflexivity.
Qed.

(* only a root session can name another user; without extra.obo a request runs as the session's user *)
Lemma dispatch_own sm roots sid : dispatch_as_c04 sm roots sid OboNone = inl (sess_uid sm sid).
Proof. reflexivity. Qed.

Lemma dispatch_needs_root sm roots sid ob : has_obo_c04 ob = true -> is_root_c04 roots sid = false ->
  dispatch_as_c04 sm roots sid ob = inr 403.
Proof. intros H R. destruct ob; [discriminate| |]; cbn; rewrite R; reflexivity. Qed.

Lemma dispatch_root_user sm roots sid u : is_root_c04 roots sid = true -> u <> 0%N ->
  dispatch_as_c04 sm roots sid (OboUser u) = inl u.
Proof.
  intros R U. cbn. rewrite R. cbn. replace (u =? 0)%N with false by (symmetry; apply N.eqb_neq; exact U). reflexivity.
Qed.

Lemma dispatch_inl sm roots sid ob u : dispatch_as_c04 sm roots sid ob = inl u ->
  (ob = OboNone /\ u = sess_uid sm sid) \/ (ob = OboUser u /\ is_root_c04 roots sid = true /\ u <> 0%N).
Proof.
  destruct ob as [|v|]; cbn.
  - intros H. inv H. left. auto.
  - destruct (is_root_c04 roots sid); cbn; [|discriminate]. destruct (v =? 0)%N eqn:E; [discriminate|].
    intros H. inv H. right. repeat split. apply N.eqb_neq. exact E.
  - destruct (is_root_c04 roots sid); discriminate.
Qed.

(* a refused request: the reply, no store call, nothing changed *)
Lemma ostep_refused sm roots f x ob o sid code : op_sid o = Some sid ->
  dispatch_as_c04 sm roots sid ob = inr code ->
  ostep_c04 sm roots f x (QReq ob o) = Some (mkState (st x) (ca x) 0, [(sid, Ctrl code [])]).
Proof. intros S D. unfold ostep_c04. rewrite S, D. reflexivity. Qed.

Lemma ostep_needs_root sm roots f x ob o sid : op_sid o = Some sid ->
  has_obo_c04 ob = true -> is_root_c04 roots sid = false ->
  ostep_c04 sm roots f x (QReq ob o) = Some (mkState (st x) (ca x) 0, [(sid, Ctrl 403 [])]).
Proof. intros S H R. apply ostep_refused; [exact S|]. apply dispatch_needs_root; assumption. Qed.

(* {sub get=...}: the subscription step, then frames only - store and cache are those of the
   subscription step *)
Lemma sub_get_shape sm' f x sid u want bkg gd gl :
  let r := sub_get_c04 sm' f x sid u want bkg gd gl in
  let s1 := step_i sm' f x (OSub sid want bkg) in
  st (fst r) = st (fst s1) /\ ca (fst r) = ca (fst s1) /\ exists o', snd r = snd s1 ++ o'.
Proof.
  cbn zeta. unfold sub_get_c04. destruct (step_i sm' f x (OSub sid want bkg)) as [x1 o1]. cbn [fst snd].
  destruct (sub_accepted_c04 sid o1); [|repeat split; exists []; rewrite app_nil_r; reflexivity].
  destruct (ca x1) as [c|] eqn:CA; [|cbn [fst snd]; repeat split; try congruence; exists []; rewrite app_nil_r; reflexivity].
  cbn [fst snd st ca].
  assert (forall h1, h_st h1 = st x1 -> h_ca h1 = c ->
          h_st (match gl with
                | Some (a, b, l) => get_del norm_ranges_i f (h_st h1) (h_ca h1) (h_n h1) sid u a b l
                | None => mkH (h_st h1) (h_ca h1) (h_n h1) []
                end) = st x1 /\
          h_ca (match gl with
                | Some (a, b, l) => get_del norm_ranges_i f (h_st h1) (h_ca h1) (h_n h1) sid u a b l
                | None => mkH (h_st h1) (h_ca h1) (h_n h1) []
                end) = c) as K.
  { intros h1 E1 E2. destruct gl as [[[a b] l]|]; cbn [h_st h_ca]; [|auto].
    destruct (get_del_same0 norm_ranges_i f (h_st h1) (h_ca h1) (h_n h1) sid u a b l) as [-> ->]. auto. }
  destruct gd as [[[a b] l]|].
  - destruct (get_data_same0 f (st x1) c (ncalls x1) sid u a b l) as [E1 E2].
    destruct (K _ E1 E2) as [K1 K2]. rewrite K1, K2. repeat split. eexists. reflexivity.
  - destruct (K (mkH (st x1) c (ncalls x1) []) eq_refl eq_refl) as [K1 K2]. cbn [h_st h_ca h_n] in *. rewrite K1, K2.
    repeat split. eexists. reflexivity.
Qed.

(* a request that is executed is one [step] of the product model in which the session stands
   for the acting user (for {sub get=...}: that step, then frames only) *)
Lemma ostep_some sm roots f x q r : ostep_c04 sm roots f x q = Some r ->
  (op_sid (q_op q) = None /\ q_obo q = OboNone /\ r = step_i sm f x (q_op q)) \/
  (exists sid code, op_sid (q_op q) = Some sid /\ dispatch_as_c04 sm roots sid (q_obo q) = inr code /\
                    r = (mkState (st x) (ca x) 0, [(sid, Ctrl code [])])) \/
  (exists sid u, op_sid (q_op q) = Some sid /\ dispatch_as_c04 sm roots sid (q_obo q) = inl u /\
     let s1 := step_i (sm_as_c04 sm sid u) f x (q_op q) in
     st (fst r) = st (fst s1) /\ ca (fst r) = ca (fst s1) /\
     (r = s1 \/ exists w b, q_op q = OSub sid w b)).
Proof.
  destruct q as [ob o|ob sid want bkg gd gl]; cbn [ostep_c04 q_op q_obo].
  - destruct (op_sid o) as [sid|] eqn:S.
    + destruct (dispatch_as_c04 sm roots sid ob) as [u|code] eqn:D.
      * destruct (is_root_c04 roots sid && negb (root_req_ok_c04 x sid u ob o)); [discriminate|].
        intros H. inv H. right. right. exists sid, u. cbn zeta. cbn [fst]. repeat split; auto.
      * intros H. inv H. right. left. exists sid, code. auto.
    + destruct ob; cbn [has_obo_c04]; try discriminate. intros H. inv H. left. auto.
  - cbn [op_sid]. destruct (dispatch_as_c04 sm roots sid ob) as [u|code] eqn:D.
    + destruct (is_root_c04 roots sid && negb (has_obo_c04 ob)); [discriminate|].
      intros H. inv H. right. right. exists sid, u. split; [reflexivity|]. split; [exact D|]. cbn zeta.
      destruct (sub_get_shape (sm_as_c04 sm sid u) f x sid u want bkg gd gl) as [A [B _]]. cbn zeta in A, B.
      split; [exact A|]. split; [exact B|]. right. eauto.
    + intros H. inv H. right. left. exists sid, code. auto.
Qed.

(* an ordinary session without extra.obo, a root session inside the modelled fragment *)
Lemma ostep_acting sm roots f x ob o sid u : op_sid o = Some sid ->
  dispatch_as_c04 sm roots sid ob = inl u ->
  (is_root_c04 roots sid = true -> root_req_ok_c04 x sid u ob o = true) ->
  ostep_c04 sm roots f x (QReq ob o) = Some (step_i (sm_as_c04 sm sid u) f x o).
Proof.
  intros S D R. unfold ostep_c04. rewrite S, D.
  destruct (is_root_c04 roots sid); cbn [andb]; [rewrite (R eq_refl)|]; reflexivity.
Qed.

(* ------------------------------------------------------------------ *)
(* 2. the refinement                                                    *)

Lemma event_no_session sm x o ou : op_sid o = None -> event_of sm x o ou = HNone.
Proof. intros S. unfold event_of. destruct (ca x); [|reflexivity]. destruct o; try discriminate; reflexivity. Qed.

Lemma inv_hist_ncalls s cx n n' : inv_hist (mkState s cx n) -> inv_hist (mkState s cx n').
Proof. intros H. exact H. Qed.

Section Sim.
Variable sm : sessmap.
Variable roots : list N.

Lemma event_sub sm' x sid w b ou : event_of sm' x (OSub sid w b) ou = HNone.
Proof. unfold event_of. destruct (ca x); reflexivity. Qed.

Lemma inv_hist_same x y : st x = st y -> ca x = ca y -> inv_hist y -> inv_hist x.
Proof. destruct x as [s1 c1 n1], y as [s2 c2 n2]. cbn [st ca]. intros -> ->. exact (fun H => H). Qed.

Lemma ostep_f_sim x fq x1 o1 : inv_hist x -> oreq_ok_c04 sm roots fq ->
  ostep_f_c04 sm roots x fq = Some (x1, o1) ->
  heq (abs (st x1)) (hs_step (abs (st x)) (oevent_c04 sm roots x (snd fq) o1)) /\ inv_hist x1.
Proof.
  intros I [OK FO] E. destruct fq as [f q]. cbn [fst snd] in *.
  unfold ostep_f_c04 in E. cbn [fst snd] in E.
  destruct (ostep_c04 sm roots f x q) as [[y oy]|] eqn:ES; [|discriminate].
  (* the state after a crash keeps the store only *)
  assert (forall ev, heq (abs (st y)) (hs_step (abs (st x)) ev) /\ inv_hist y ->
          ev = oevent_c04 sm roots x q oy ->
          heq (abs (st x1)) (hs_step (abs (st x)) (oevent_c04 sm roots x q o1)) /\ inv_hist x1) as FIN.
  { intros ev [HS IY] ->. destruct f; inv E; try (split; assumption). cbn [st]. split; [exact HS|].
    destruct IY as [[A [B C]] [I0 _]]. split; [|split; [exact I0|exact Logic.I]].
    split; [exact A|]. split; [exact B|]. cbn [ca st]. destruct (ca y) as [c|]; [destruct C as [? [? ?]]; lia|exact C]. }
  destruct (ostep_some sm roots f x q (y, oy) ES) as [[S [OB R]]|[[sid [code [S [D R]]]]|[sid [u [S [D R]]]]]].
  - (* a request that belongs to no session: unload, restart *)
    assert (oevent_c04 sm roots x q oy = HNone) as EV.
    { unfold oevent_c04, acting_c04. rewrite S. reflexivity. }
    assert (op_ok sm (q_op q)) as OK' by (unfold op_ok; rewrite S; exact Logic.I).
    pose proof (step_sim del_ranges_i norm_ranges_i sm dr_exact_i f x (q_op q) I OK' FO) as [HS I1].
    fold (step_i sm f x (q_op q)) in HS, I1. rewrite <- R in HS, I1. cbn [fst snd] in HS, I1.
    rewrite (event_no_session sm x (q_op q) _ S) in HS.
    apply (FIN HNone); [|symmetry; exact EV]. split; [exact HS|]. split; [|exact I1].
    pose proof (step_f_inv_num del_ranges_i norm_ranges_i sm x (NoFault, q_op q) (proj1 I)) as IN.
    unfold step_f in IN. cbn [fst snd] in IN. fold (step_i sm NoFault x (q_op q)) in IN.
    pose proof (step_inv_num del_ranges_i norm_ranges_i sm f x (q_op q) (proj1 I)) as IN'.
    fold (step_i sm f x (q_op q)) in IN'. rewrite <- R in IN'. exact IN'.
  - (* refused by Session.dispatch *)
    assert (oevent_c04 sm roots x q oy = HNone) as EV.
    { unfold oevent_c04, acting_c04. rewrite S, D. reflexivity. }
    apply (FIN HNone); [|symmetry; exact EV]. inv R. cbn [hs_step st]. split; [apply heq_refl|].
    apply (inv_hist_same _ x); [reflexivity|reflexivity|exact I].
  - (* executed as user u *)
    cbn zeta in R. destruct R as [RS [RC RR]]. cbn [fst] in RS, RC.
    assert (op_ok (sm_as_c04 sm sid u) (q_op q)) as OK'.
    { unfold op_ok. rewrite S. rewrite sess_uid_as. unfold acting_c04 in OK. rewrite S, D in OK. exact OK. }
    pose proof (step_sim del_ranges_i norm_ranges_i (sm_as_c04 sm sid u) dr_exact_i f x (q_op q) I OK' FO) as [HS I1].
    pose proof (step_inv_num del_ranges_i norm_ranges_i (sm_as_c04 sm sid u) f x (q_op q) (proj1 I)) as IN'.
    fold (step_i (sm_as_c04 sm sid u) f x (q_op q)) in HS, I1, IN'.
    destruct (step_i (sm_as_c04 sm sid u) f x (q_op q)) as [z oz] eqn:EZ. cbn [fst snd] in *.
    assert (oevent_c04 sm roots x q oy = event_of (sm_as_c04 sm sid u) x (q_op q) oz) as EV.
    { unfold oevent_c04, acting_c04. rewrite S, D. destruct RR as [RR|[w [b EQ]]]; [inv RR; reflexivity|].
      rewrite EQ. rewrite !event_sub. reflexivity. }
    apply (FIN (event_of (sm_as_c04 sm sid u) x (q_op q) oz)); [|symmetry; exact EV]. rewrite RS. split; [exact HS|].
    apply (inv_hist_same _ z); [exact RS|exact RC|]. split; assumption.
Qed.

(* what the stored rows show after a history with obo requests is what the specification computes
   from the accepted requests, each attributed to the user it was executed as *)
Lemma orun_refines h : forall x a xf outs, inv_hist x -> ohist_ok_c04 sm roots h -> heq (abs (st x)) a ->
  orun_c04 sm roots x h = Some (xf, outs) ->
  heq (abs (st xf)) (ohs_run_c04 sm roots x h a) /\ inv_hist xf.
Proof.
  induction h as [|fq h IH]; intros x a xf outs I HO E R; cbn [orun_c04 ohs_run_c04] in *.
  - inv R. split; assumption.
  - inversion HO as [|? ? OK HO']; subst.
    destruct (ostep_f_c04 sm roots x fq) as [[x1 o1]|] eqn:ES; [|discriminate].
    destruct (ostep_f_sim x fq x1 o1 I OK ES) as [HS I1].
    destruct (orun_c04 sm roots x1 h) as [[x2 os]|] eqn:ER; [|discriminate]. inv R.
    apply (IH x1 (hs_step a (oevent_c04 sm roots x (snd fq) o1)) xf os I1 HO'); [|exact ER].
    eapply heq_trans; [exact HS|]. apply hs_step_heq. exact E.
Qed.

(* with ANY faults: message numbers stay unique, log rows stay well formed *)
Definition log_minv (x : state) : Prop := minv dellog_wf log_inv x.

Lemma step_log_minv sm' : forall f x o, log_minv x -> log_minv (fst (step_i sm' f x o)).
Proof.
  apply (step_minv del_ranges_i norm_ranges_i sm' dellog_wf log_inv).
  - intros s H. split; [exact H|]. destruct H as [_ H]. exact H.
  - intros s c [H _]. exact H.
  - intros f s c n sid u w b [H HC]. split; [eapply dellog_wf_hsame; [apply sub_reply_h4|exact H]|].
    now rewrite (hframe_delid _ _ _ (sub_reply_frame f s c n sid u w b)).
  - intros f s c n sid u [H HC]. pose proof (leave_unsub_cases f s c n sid u) as L. cbn zeta in L.
    destruct L as [_ [LD [[_ UR]|[code [_ [_ E]]]]]]; (split; [|now rewrite LD]);
      [eapply dellog_wf_unsub; eassumption|now rewrite E].
  - intros s c sid u [H HC]. split; [exact H|]. destruct (leave_frame c sid u) as [_ [E _]]. now rewrite E.
  - intros f s c n sid u ct ne [[H H0] HC]. destruct (publish_h4 f s c n sid u ct ne) as [E1 [E2 [E3 _]]].
    split; [|now rewrite E3]. unfold dellog_wf. now rewrite E1, E2.
  - intros f s c n sid u w q [H HC]. split; [eapply dellog_wf_hsame; [apply note_h4|exact H]|].
    now rewrite (hframe_delid _ _ _ (note_frame f s c n sid u w q)).
  - intros f s c n sid u r hd H. apply (del_msg_wf del_ranges_i dr_wf_i). exact H.
  - intros f s c n sid u t m [H HC]. split; [eapply dellog_wf_hsame; [apply set_sub_h4|exact H]|].
    now rewrite (hframe_delid _ _ _ (set_sub_frame f s c n sid u t m)).
  - intros f s c n sid u t [H HC]. pose proof (del_sub_cases f s c n sid u t) as L. cbn zeta in L.
    destruct L as [_ [LD [[_ [_ UR]]|[code [_ [_ E]]]]]]; (split; [|now rewrite LD]);
      [eapply dellog_wf_unsub; eassumption|now rewrite E].
  - intros f s sid u t m H. eapply dellog_wf_hsame; [apply offline_set_sub_hsame|exact H].
  - intros f s c sid u t m [H HC]. split; [|exact HC]. eapply dellog_wf_hsame; [apply offline_set_sub_hsame|exact H].
Qed.

Lemma log_minv_wf x : log_minv x -> dellog_wf (st x).
Proof. unfold log_minv, minv. destruct (ca x); [intros [A _]; exact A|auto]. Qed.

Lemma inv_num_same x y : st x = st y -> ca x = ca y -> inv_num y -> inv_num x.
Proof. destruct x as [s1 c1 n1], y as [s2 c2 n2]. cbn [st ca]. intros -> ->. exact (fun H => H). Qed.
Lemma log_minv_same x y : st x = st y -> ca x = ca y -> log_minv y -> log_minv x.
Proof. destruct x as [s1 c1 n1], y as [s2 c2 n2]. cbn [st ca]. intros -> ->. exact (fun H => H). Qed.

Lemma ostep_f_rows x fq x1 o1 : inv_num x -> log_minv x ->
  ostep_f_c04 sm roots x fq = Some (x1, o1) -> inv_num x1 /\ log_minv x1.
Proof.
  intros IN W E. destruct fq as [f q]. unfold ostep_f_c04 in E. cbn [fst snd] in E.
  destruct (ostep_c04 sm roots f x q) as [[y oy]|] eqn:ES; [|discriminate].
  assert (inv_num y /\ log_minv y -> inv_num x1 /\ log_minv x1) as FIN.
  { intros [IY WY]. destruct f; inv E; try (split; assumption). split.
    - destruct IY as [A [B C]]. split; [exact A|]. split; [exact B|]. cbn [ca st].
      destruct (ca y) as [c|]; [destruct C as [? [? ?]]; lia|exact C].
    - apply log_minv_wf in WY. exact WY. }
  assert (forall sm', inv_num (fst (step_i sm' f x (q_op q))) /\ log_minv (fst (step_i sm' f x (q_op q)))) as K.
  { intros sm'. split.
    - apply (step_inv_num del_ranges_i norm_ranges_i sm' f x (q_op q) IN).
    - apply step_log_minv. exact W. }
  apply FIN.
  destruct (ostep_some sm roots f x q (y, oy) ES) as [[S [OB R]]|[[sid [code [S [D R]]]]|[sid [u [S [D R]]]]]].
  - destruct (K sm) as [K1 K2]. rewrite <- R in K1, K2. split; assumption.
  - inv R. split; [apply (inv_num_same _ x); auto|apply (log_minv_same _ x); auto].
  - cbn zeta in R. destruct R as [RS [RC _]]. cbn [fst] in RS, RC. destruct (K (sm_as_c04 sm sid u)) as [K1 K2].
    split; [apply (inv_num_same _ _ RS RC K1)|apply (log_minv_same _ _ RS RC K2)].
Qed.

Lemma orun_rows h : forall x xf outs, inv_num x -> log_minv x ->
  orun_c04 sm roots x h = Some (xf, outs) ->
  NoDup (seqs (st xf)) /\ dellog_wf (st xf).
Proof.
  induction h as [|fq h IH]; intros x xf outs IN W R; cbn [orun_c04] in R.
  - inv R. split; [apply IN|apply log_minv_wf; exact W].
  - destruct (ostep_f_c04 sm roots x fq) as [[x1 o1]|] eqn:ES; [|discriminate].
    destruct (ostep_f_rows x fq x1 o1 IN W ES) as [I1 W1].
    destruct (orun_c04 sm roots x1 h) as [[x2 os]|] eqn:ER; [|discriminate]. inv R.
    exact (IH x1 xf os I1 W1 ER).
Qed.
End Sim.

(* ------------------------------------------------------------------ *)
(* 3. the answers depend on the acting user only                         *)

(* the three requests of the property, without the session they come from *)
Inductive query_c04 :=
| QData (since before limit : Z)
| QDel (since before limit : Z)
| QDelMsg (req : list (Z * Z)) (hard : bool).

Definition op_of_query_c04 (sid : N) (q : query_c04) : op :=
  match q with
  | QData a b l => OGetData sid a b l
  | QDel a b l => OGetDel sid a b l
  | QDelMsg req hard => ODelMsg sid req hard
  end.

(* the handler of the topic (replyGetData / replyGetDel / replyDelMsg) applied to (sess, asUid) *)
Definition handle_query_c04 (f : fault) (s : store) (c : cache) (sid u : N) (q : query_c04) : hres :=
  match q with
  | QData a b l => get_data f s c 0 sid u a b l
  | QDel a b l => get_del norm_ranges_i f s c 0 sid u a b l
  | QDelMsg req hard => del_msg del_ranges_i f s c 0 sid u req hard
  end.

Definition retag (sid : N) (o : out) : out := map (fun e => (sid, snd e)) o.

Lemma op_sid_query sid q : op_sid (op_of_query_c04 sid q) = Some sid.
Proof. destruct q; reflexivity. Qed.

Lemma root_ok_query x sid u ob q : root_req_ok_c04 x sid u ob (op_of_query_c04 sid q) = true.
Proof. destruct q; reflexivity. Qed.

(* an attached session: the request goes to the topic's handler with the ACTING user as asUid,
   whoever owns the session and whoever the session is attached as *)
Lemma ostep_query sm roots f s c n0 sid ob u q : attached c sid = true ->
  dispatch_as_c04 sm roots sid ob = inl u ->
  ostep_c04 sm roots f (mkState s (Some c) n0) (QReq ob (op_of_query_c04 sid q)) =
  Some (let h := handle_query_c04 f s c sid u q in (mkState (h_st h) (Some (h_ca h)) (h_n h), h_out h)).
Proof.
  intros AT D.
  rewrite (ostep_acting sm roots f _ ob _ sid u (op_sid_query sid q) D (fun _ => root_ok_query _ sid u ob q)).
  f_equal. unfold step_i, step. destruct q; cbn [op_of_query_c04 st ca handle_query_c04]; rewrite AT; cbn [negb];
    rewrite sess_uid_as; reflexivity.
Qed.

(* a session that is not attached is refused, whoever it acts for - also when the acted-for user
   has other sessions attached *)
Lemma ostep_query_detached sm roots f s cx n0 sid ob u q :
  match cx with Some c => attached c sid = false | None => True end ->
  dispatch_as_c04 sm roots sid ob = inl u ->
  ostep_c04 sm roots f (mkState s cx n0) (QReq ob (op_of_query_c04 sid q)) =
  Some (mkState s cx 0, [(sid, Ctrl (match q with QDelMsg _ _ => 409 | _ => 403 end) [])]).
Proof.
  intros AT D.
  rewrite (ostep_acting sm roots f _ ob _ sid u (op_sid_query sid q) D (fun _ => root_ok_query _ sid u ob q)).
  f_equal. unfold step_i, step. destruct q; cbn [op_of_query_c04 st ca]; (destruct cx as [c|]; [rewrite AT|]); reflexivity.
Qed.

(* the handlers use the session only to address their frames *)
Lemma get_data_session f s c n sid sid' u a b l :
  get_data f s c n sid' u a b l =
  (let h := get_data f s c n sid u a b l in mkH (h_st h) (h_ca h) (h_n h) (retag sid' (h_out h))).
Proof.
  unfold get_data, retag. destruct (is_reader (user_mode c u)); [|reflexivity].
  destruct (call f n) as [ok1 n1]. destruct ok1; cbn [negb]; [|reflexivity].
  destruct (ad_msg_get_all s u a b l) as [|m ms]; [reflexivity|]. cbn [h_st h_ca h_n h_out]. f_equal.
  rewrite map_app, map_map. reflexivity.
Qed.

Lemma get_del_session f s c n sid sid' u a b l :
  get_del norm_ranges_i f s c n sid' u a b l =
  (let h := get_del norm_ranges_i f s c n sid u a b l in mkH (h_st h) (h_ca h) (h_n h) (retag sid' (h_out h))).
Proof.
  unfold get_del, retag. destruct (is_reader (user_mode c u)); [|reflexivity].
  destruct (call f n) as [ok1 n1]. destruct ok1; cbn [negb]; [|reflexivity].
  destruct (ad_msg_get_deleted s u a b l) as [|m ms]; reflexivity.
Qed.

Lemma del_msg_session f s c n sid sid' u req hard :
  del_msg del_ranges_i f s c n sid' u req hard =
  (let h := del_msg del_ranges_i f s c n sid u req hard in mkH (h_st h) (h_ca h) (h_n h) (retag sid' (h_out h))).
Proof.
  unfold del_msg, retag.
  destruct (negb (hard && is_deleter (user_mode c u)) && negb (is_reader (user_mode c u))); [reflexivity|].
  destruct (del_ranges_i (c_lastid c) req) as [rs|]; [|reflexivity].
  destruct (call f n) as [ok1 n1]. destruct ok1; cbn [negb]; [|reflexivity].
  destruct (call f n1) as [ok2 n2]. destruct ok2; cbn [negb]; [|reflexivity].
  destruct (call f n2) as [ok3 n3]. destruct ok3; cbn [negb]; reflexivity.
Qed.

Lemma handle_query_session f s c sid sid' u q :
  handle_query_c04 f s c sid' u q =
  (let h := handle_query_c04 f s c sid u q in mkH (h_st h) (h_ca h) (h_n h) (retag sid' (h_out h))).
Proof.
  destruct q; cbn [handle_query_c04]; [apply get_data_session|apply get_del_session|apply del_msg_session].
Qed.

(* two attached sessions acting for the same user - e.g. a root session with extra.obo = u and
   u's own session - get the same frames for the same request and leave the same state behind *)
Lemma obo_same_answer sm roots f s c n0 sid1 ob1 sid2 ob2 u q :
  attached c sid1 = true -> attached c sid2 = true ->
  dispatch_as_c04 sm roots sid1 ob1 = inl u -> dispatch_as_c04 sm roots sid2 ob2 = inl u ->
  exists x' o1 o2,
    ostep_c04 sm roots f (mkState s (Some c) n0) (QReq ob1 (op_of_query_c04 sid1 q)) = Some (x', o1) /\
    ostep_c04 sm roots f (mkState s (Some c) n0) (QReq ob2 (op_of_query_c04 sid2 q)) = Some (x', o2) /\
    map snd o1 = map snd o2 /\ Forall (fun e => fst e = sid1) o1 /\ Forall (fun e => fst e = sid2) o2.
Proof.
  intros A1 A2 D1 D2.
  rewrite (ostep_query sm roots f s c n0 sid1 ob1 u q A1 D1), (ostep_query sm roots f s c n0 sid2 ob2 u q A2 D2).
  rewrite (handle_query_session f s c sid1 sid2 u q).
  set (h := handle_query_c04 f s c sid1 u q).
  assert (h_out h = retag sid1 (h_out h)) as K.
  { pose proof (handle_query_session f s c sid1 sid1 u q) as K. fold h in K. cbn zeta in K.
    rewrite K at 1. reflexivity. }
  cbn zeta. cbn [h_st h_ca h_n h_out].
  eexists _, _, _. split; [reflexivity|]. split; [reflexivity|].
  split; [unfold retag; rewrite map_map; reflexivity|].
  split; [rewrite K|]; unfold retag; apply Forall_forall; intros e He; apply in_map_iff in He;
    destruct He as [e0 [<- _]]; reflexivity.
Qed.

(* ------------------------------------------------------------------ *)
(* 3b. {sub get="data del"}: the subscription, then the same two handlers for the same user *)

Lemma ostep_sub_get sm roots f x ob sid u want bkg gd gl :
  dispatch_as_c04 sm roots sid ob = inl u ->
  (is_root_c04 roots sid = true -> has_obo_c04 ob = true) ->
  ostep_c04 sm roots f x (QSubGet ob sid want bkg gd gl) =
  Some (sub_get_c04 (sm_as_c04 sm sid u) f x sid u want bkg gd gl).
Proof.
  intros D R. cbn [ostep_c04]. rewrite D. destruct (is_root_c04 roots sid); cbn [andb]; [rewrite (R eq_refl)|]; reflexivity.
Qed.

Lemma get_data_nofault_n s c n n' sid u a b l :
  h_out (get_data NoFault s c n sid u a b l) = h_out (get_data NoFault s c n' sid u a b l).
Proof. unfold get_data, call. cbn [fails negb]. destruct (is_reader (user_mode c u)); [|reflexivity].
  destruct (ad_msg_get_all s u a b l); reflexivity. Qed.
Lemma get_del_nofault_n s c n n' sid u a b l :
  h_out (get_del norm_ranges_i NoFault s c n sid u a b l) = h_out (get_del norm_ranges_i NoFault s c n' sid u a b l).
Proof. unfold get_del, call. cbn [fails negb]. destruct (is_reader (user_mode c u)); [|reflexivity].
  destruct (ad_msg_get_deleted s u a b l); reflexivity. Qed.

(* without store faults, {sub get="data del"} answers what {sub} followed by {get data} and
   {get del} from the same session (for the same acting user) answer: the statements about
   {get data} / {get del} carry over to the frames that follow the subscription reply *)
Lemma sub_get_as_requests sm' x sid want bkg a b l a' b' l' x1 o1 c :
  step_i sm' NoFault x (OSub sid want bkg) = (x1, o1) -> sub_accepted_c04 sid o1 = true ->
  ca x1 = Some c -> attached c sid = true ->
  let r := sub_get_c04 sm' NoFault x sid (sess_uid sm' sid) want bkg (Some (a, b, l)) (Some (a', b', l')) in
  snd r = o1 ++ snd (step_i sm' NoFault x1 (OGetData sid a b l)) ++ snd (step_i sm' NoFault x1 (OGetDel sid a' b' l')) /\
  st (fst r) = st x1 /\ ca (fst r) = ca x1.
Proof.
  intros E A CA AT. cbn zeta. unfold sub_get_c04. rewrite E, A, CA. cbn [fst snd st ca].
  destruct (get_data_same0 NoFault (st x1) c (ncalls x1) sid (sess_uid sm' sid) a b l) as [E1 E2]. rewrite E1, E2.
  destruct (get_del_same0 norm_ranges_i NoFault (st x1) c
              (h_n (get_data NoFault (st x1) c (ncalls x1) sid (sess_uid sm' sid) a b l)) sid (sess_uid sm' sid) a' b' l') as [E3 E4].
  rewrite E3, E4. split; [|split; reflexivity].
  destruct x1 as [s1 cx1 n1]. cbn [st ca ncalls] in *. subst cx1.
  unfold step_i, step. cbn [st ca]. rewrite AT. cbn [negb snd].
  rewrite (get_data_nofault_n s1 c n1 0), (get_del_nofault_n s1 c _ 0). reflexivity.
Qed.

(* the subscription refused (or the session already attached): nothing follows the reply *)
Lemma sub_get_refused sm' f x sid u want bkg gd gl :
  sub_accepted_c04 sid (snd (step_i sm' f x (OSub sid want bkg))) = false ->
  sub_get_c04 sm' f x sid u want bkg gd gl = step_i sm' f x (OSub sid want bkg).
Proof. intros A. unfold sub_get_c04. destruct (step_i sm' f x (OSub sid want bkg)) as [x1 o1]. cbn [snd] in A. rewrite A. reflexivity. Qed.

(* ------------------------------------------------------------------ *)
(* 4. {get data} and {get del} after any history with obo requests       *)

Section After.
Variable sm : sessmap.
Variable roots : list N.

Definition oreach_c04 (s0 : store) (h : list (fault * oreq_c04)) : option state :=
  option_map fst (orun_c04 sm roots (mkState s0 None 0) h).

Lemma oreach_refines s0 h x : hist_init s0 -> ohist_ok_c04 sm roots h -> oreach_c04 s0 h = Some x ->
  heq (abs (st x)) (ohs_run_c04 sm roots (mkState s0 None 0) h (abs s0)) /\ inv_hist x.
Proof.
  intros HI HO R. unfold oreach_c04 in R.
  destruct (orun_c04 sm roots (mkState s0 None 0) h) as [[xf outs]|] eqn:ER; [|discriminate]. inv R.
  apply (orun_refines sm roots h (mkState s0 None 0) (abs s0) x outs); [| exact HO | apply heq_refl | exact ER].
  apply fresh_inv_hist. apply hist_init_fresh. exact HI.
Qed.

Lemma oreach_rows s0 h x : hist_init s0 -> oreach_c04 s0 h = Some x -> NoDup (seqs (st x)) /\ dellog_wf (st x).
Proof.
  intros HI R. unfold oreach_c04 in R.
  destruct (orun_c04 sm roots (mkState s0 None 0) h) as [[xf outs]|] eqn:ER; [|discriminate]. inv R.
  apply (orun_rows sm roots h (mkState s0 None 0) x outs); [| |exact ER].
  - apply fresh_inv. apply hist_init_fresh in HI. apply HI.
  - unfold log_minv, minv. cbn [ca st]. apply hist_init_wf. exact HI.
Qed.

Lemma obo_get_data_history s0 h x c sid ob u since before limit :
  hist_init s0 -> oreach_c04 s0 h = Some x -> ca x = Some c -> attached c sid = true ->
  dispatch_as_c04 sm roots sid ob = inl u -> is_reader (user_mode c u) = true ->
  exists x' o, ostep_c04 sm roots NoFault x (QReq ob (OGetData sid since before limit)) = Some (x', o) /\
  st x' = st x /\
  let fr := data_of o in
  let lim := Z.to_nat (eff_limit max_msg_results limit) in
  o = map (fun e => (sid, Data (fst (fst e)) (snd (fst e)) (snd e))) fr ++ [(sid, data_closing (length fr))] /\
  (length fr <= lim)%nat /\
  StronglySorted data_gt fr /\
  (forall y a ct, In (y, a, ct) fr -> in_window since before y = true /\ hs_visible (abs (st x)) u y = Some (a, ct)) /\
  (forall y a ct, in_window since before y = true -> hs_visible (abs (st x)) u y = Some (a, ct) ->
     In (y, a, ct) fr \/ (length fr = lim /\ forall e, In e fr -> y < fst (fst e))).
Proof.
  intros HI R CA AT D RD.
  destruct (oreach_rows s0 h x HI R) as [ND _].
  destruct x as [s cx n0]. cbn [st ca] in *. subst cx.
  pose proof (ostep_query sm roots NoFault s c n0 sid ob u (QData since before limit) AT D) as E.
  cbn [op_of_query_c04 handle_query_c04] in E. cbn zeta in E.
  eexists _, _. split; [exact E|]. cbn [st]. split; [apply get_data_same0|].
  exact (get_data_exact NoFault s c 0 sid u since before limit ND RD eq_refl).
Qed.

Lemma obo_get_del_history s0 h x c sid ob u since before limit :
  hist_init s0 -> oreach_c04 s0 h = Some x -> ca x = Some c -> attached c sid = true ->
  dispatch_as_c04 sm roots sid ob = inl u -> is_reader (user_mode c u) = true ->
  (length (filter (del_sel u since before) (dellog (st x))) <= Z.to_nat (eff_limit max_results limit))%nat ->
  exists x' o, ostep_c04 sm roots NoFault x (QReq ob (OGetDel sid since before limit)) = Some (x', o) /\
  st x' = st x /\
  ((o = [(sid, Ctrl 204 [(P_what, 3)])] /\ forall y, logged_sel (st x) u since before y = false) \/
   (exists maxid rs, o = [(sid, MetaDel maxid rs)] /\
      (forall y, covers rs y = logged_sel (st x) u since before y) /\
      (forall d, In d (dellog (st x)) -> del_sel u since before d = true -> d_delid d <= maxid) /\
      (exists d, In d (dellog (st x)) /\ del_sel u since before d = true /\ d_delid d = maxid))).
Proof.
  intros HI R CA AT D RD L.
  destruct (oreach_rows s0 h x HI R) as [_ W].
  destruct x as [s cx n0]. cbn [st ca] in *. subst cx.
  pose proof (ostep_query sm roots NoFault s c n0 sid ob u (QDel since before limit) AT D) as E.
  cbn [op_of_query_c04 handle_query_c04] in E. cbn zeta in E.
  eexists _, _. split; [exact E|]. cbn [st]. split; [apply get_del_same0|].
  destruct (get_deleted_rows s u since before limit) as [_ [RW EX]]. cbn zeta in RW, EX.
  specialize (EX L).
  destruct (get_del_exact norm_ranges_i nr_exact_i NoFault s c 0 sid u since before limit W RD eq_refl)
    as [[E1 E2]|[maxid [rs [E1 [E2 [E3 E4]]]]]].
  - left. split; [exact E2|]. intros y. rewrite <- EX, E1. reflexivity.
  - right. exists maxid, rs. split; [exact E1|]. split; [intros y; rewrite E4; apply EX|]. split.
    + intros d Hd Sd. apply E2.
      rewrite get_deleted_filter. rewrite firstn_all2.
      * apply (Permutation.Permutation_in _ (Permutation.Permutation_sym (sort_del_perm _))). apply filter_In. split; assumption.
      * rewrite (Permutation.Permutation_length (sort_del_perm _)). exact L.
    + destruct E3 as [d [Hd Ed]]. exists d. destruct (RW d Hd) as [A B]. auto.
Qed.

(* no R for the ACTING user: nothing is shown, whatever the session's own user may read *)
Lemma obo_query_needs_read f s c n0 sid ob u since before limit : attached c sid = true ->
  dispatch_as_c04 sm roots sid ob = inl u -> is_reader (user_mode c u) = false ->
  ostep_c04 sm roots f (mkState s (Some c) n0) (QReq ob (OGetData sid since before limit)) =
    Some (mkState s (Some c) 0, [(sid, Ctrl 204 [(P_what, 1)])]) /\
  ostep_c04 sm roots f (mkState s (Some c) n0) (QReq ob (OGetDel sid since before limit)) =
    Some (mkState s (Some c) 0, [(sid, Ctrl 204 [(P_what, 3)])]).
Proof.
  intros AT D RD. split.
  - change (OGetData sid since before limit) with (op_of_query_c04 sid (QData since before limit)).
    rewrite (ostep_query sm roots f s c n0 sid ob u (QData since before limit) AT D).
    cbn [handle_query_c04]. cbn zeta. unfold get_data. rewrite RD. reflexivity.
  - change (OGetDel sid since before limit) with (op_of_query_c04 sid (QDel since before limit)).
    rewrite (ostep_query sm roots f s c n0 sid ob u (QDel since before limit) AT D).
    cbn [handle_query_c04]. cbn zeta. unfold get_del. rewrite RD. reflexivity.
Qed.
End After.

(* ------------------------------------------------------------------ *)
(* 5. a delete request executed for user u is u's deletion               *)

(* the specification event of an accepted {del msg} names the ACTING user and is decided by
   HIS effective mode: soft -> hidden from him only, hard (asked and D in his mode) -> everyone *)
Lemma obo_del_event sm roots s c n0 sid ob u req hard ou : attached c sid = true ->
  dispatch_as_c04 sm roots sid ob = inl u ->
  oevent_c04 sm roots (mkState s (Some c) n0) (QReq ob (ODelMsg sid req hard)) ou =
  match head_frame ou with
  | Some (Ctrl code [(_, _)]) =>
    if code =? 200 then HDel u (hard && is_deleter (user_mode c u)) (req_ids (c_lastid c) req) else HNone
  | _ => HNone
  end.
Proof.
  intros AT D. unfold oevent_c04, acting_c04. cbn [q_op q_obo op_sid]. rewrite D.
  unfold event_of. cbn [ca]. rewrite sess_uid_as.
  reflexivity.
Qed.

(* ------------------------------------------------------------------ *)
(* 6. the wrapper is conservative: an ordinary session without extra.obo *)

Lemma step_sess_ext sm1 sm2 f x o :
  (forall sid, op_sid o = Some sid -> sess_uid sm1 sid = sess_uid sm2 sid) ->
  step_i sm1 f x o = step_i sm2 f x o.
Proof.
  intros H. unfold step_i, step.
  destruct o; cbn [op_sid] in H; try reflexivity; rewrite (H _ eq_refl); reflexivity.
Qed.

Lemma ostep_plain sm roots f x o sid : op_sid o = Some sid -> is_root_c04 roots sid = false ->
  ostep_c04 sm roots f x (QReq OboNone o) = Some (step_i sm f x o).
Proof.
  intros S R.
  rewrite (ostep_acting sm roots f x OboNone o sid (sess_uid sm sid) S eq_refl) by (rewrite R; discriminate).
  f_equal. apply step_sess_ext. intros sid' S'. rewrite S in S'. inv S'. apply sess_uid_as.
Qed.

Lemma orun_plain sm h : forall x,
  orun_c04 sm [] x (map (fun fo => (fst fo, QReq OboNone (snd fo))) h) = Some (run_i sm x h).
Proof.
  induction h as [|[f o] h IH]; intros x; cbn [map orun_c04 fst snd]; [reflexivity|].
  unfold run_i. cbn [run]. fold (run_i sm).
  assert (ostep_c04 sm [] f x (QReq OboNone o) = Some (step_i sm f x o)) as E.
  { destruct (op_sid o) as [sid|] eqn:S; [apply (ostep_plain sm [] f x o sid S eq_refl)|].
    unfold ostep_c04. rewrite S. reflexivity. }
  unfold ostep_f_c04. cbn [fst snd]. rewrite E. unfold step_f. cbn [fst snd]. fold (step_i sm f x o).
  destruct (step_i sm f x o) as [x1 o1].
  destruct f; rewrite IH; unfold run_i;
    match goal with |- context [run _ _ _ ?y h] => destruct (run del_ranges_i norm_ranges_i sm y h) end; reflexivity.
Qed.

(* ------------------------------------------------------------------ *)
(* 7. the regression this development is about, as a refuted statement: a history answered
   with the soft deletions of the SESSION's user (store.Messages.GetAll(t.name, sess.uid, ...))
   instead of the acting user's *)

Definition get_data_sessuid_c04 (f : fault) (s : store) (c : cache) (n : nat) (sid su u : N) (since before limit : Z) : hres :=
  if is_reader (user_mode c u) then
    let '(ok1, n1) := call f n in
    if negb ok1 then mkH s c n1 [(sid, Ctrl 500 [])] else
    let ms := ad_msg_get_all s su since before limit in
    match ms with
    | [] => mkH s c n1 [(sid, Ctrl 204 [(P_what, 1)])]
    | _ => mkH s c n1 (map (fun m => (sid, Data (m_seq m) (m_from m) (m_content m))) ms
                        ++ [(sid, Ctrl 208 [(P_what, 1); (P_count, Z.of_nat (length ms))])])
    end
  else mkH s c n [(sid, Ctrl 204 [(P_what, 1)])].

(* "every message sent is visible to the acting user", for a handler that is told both users *)
Definition shows_only_visible_statement
  (gd : fault -> store -> cache -> nat -> N -> N -> N -> Z -> Z -> Z -> hres) : Prop :=
  forall s c sid su u since before limit y a ct, NoDup (seqs s) ->
    In (y, a, ct) (data_of (h_out (gd NoFault s c 0%nat sid su u since before limit))) ->
    hs_visible (abs s) u y = Some (a, ct).

Lemma get_data_shows_only_visible :
  shows_only_visible_statement (fun f s c n sid su u => get_data f s c n sid u).
Proof.
  intros s c sid su u since before limit y a ct ND Hin.
  destruct (is_reader (user_mode c u)) eqn:RD.
  - destruct (get_data_exact NoFault s c 0 sid u since before limit ND RD eq_refl) as [_ [_ [_ [V _]]]].
    apply (V y a ct Hin).
  - rewrite (get_data_no_read NoFault s c 0 sid u since before limit RD) in Hin. destruct Hin.
Qed.

(* one message, soft-deleted by user 2; the root session of user 1 reads on behalf of user 2 *)
Definition wit_obo_store : store :=
  mkStore true 1 1 1%N 47%N 0%N [mkSub 1 255 255 0 0 0 false; mkSub 2 47 47 0 0 1 false] [mkMsg 1 1%N 7%N 0]
          [mkDel 1 2%N 1 2] [(1%N, 47%N); (2%N, 47%N)].
Definition wit_obo_cache : cache :=
  mkCache 1 1 1%N 47%N 0%N [(1%N, mkPud 255 255 0 0 0 1); (2%N, mkPud 47 47 0 0 1 0)] [(1%N, (1%N, false))].

Lemma get_data_sessuid_refuted : ~ shows_only_visible_statement get_data_sessuid_c04.
Proof.
  intros H. specialize (H wit_obo_store wit_obo_cache 1%N 1%N 2%N 0 0 0 1 1%N 7%N).
  assert (hs_visible (abs wit_obo_store) 2%N 1 = None) as V by (vm_compute; reflexivity).
  rewrite V in H. discriminate H.
  - vm_compute. repeat constructor. intros [].
  - vm_compute. left. reflexivity.
Qed.

(* the two handlers agree whenever the session acts for its own user *)
Lemma get_data_sessuid_partial f s c n sid u since before limit :
  get_data_sessuid_c04 f s c n sid u u since before limit = get_data f s c n sid u since before limit.
Proof. reflexivity. Qed.

(* ------------------------------------------------------------------ *)
(* 8. non-vacuity: three users; session 1 is a root session of user 1, sessions 2 and 3 are the
   ordinary sessions of users 2 and 3.  The root session attaches (as user 1, with extra.obo),
   publishes for itself and for user 3, soft-deletes message 2 for itself and messages 4, 5 on
   behalf of user 2; user 2 soft-deletes message 1 himself.  History and deletion log read by the
   root session on behalf of 2 equal what user 2's own session gets; the root session's own
   view and its view on behalf of 3 differ; a non-root session naming another user is refused. *)
Definition ex_obo_s0 : store :=
  ad_sub_create (ad_sub_create (ad_sub_create (mkStore true 0 0 0%N 47%N 0%N [] [] [] [(1%N, 47%N); (2%N, 47%N); (3%N, 47%N)])
     1%N 255%N 255%N) 2%N 47%N 47%N) 3%N 47%N 47%N.
Definition ex_obo_hist : list (fault * oreq_c04) :=
  map (fun q => (NoFault, QReq (fst q) (snd q)))
    [(OboUser 1, OSub 1 [] false); (OboNone, OSub 2 [] false); (OboNone, OSub 3 [] false);
     (OboNone, OPub 1 7 false); (OboNone, OPub 2 8 false); (OboUser 3, OPub 1 9 false); (OboNone, OPub 1 10 false);
     (OboNone, OPub 3 11 false);
     (OboNone, ODelMsg 1 [(2, 0)] false);
     (OboUser 2, ODelMsg 1 [(4, 6)] false);
     (OboNone, ODelMsg 2 [(1, 0)] false);
     (OboUser 2, OGetData 1 0 0 0); (OboNone, OGetData 2 0 0 0); (OboNone, OGetData 1 0 0 0); (OboUser 3, OGetData 1 0 0 0);
     (OboUser 2, OGetDel 1 0 0 0); (OboNone, OGetDel 2 0 0 0); (OboNone, OGetDel 1 0 0 0);
     (OboUser 2, OGetData 2 0 0 0); (OboJunk, OGetData 1 0 0 0); (OboUser 0, OGetData 1 0 0 0)].
Definition ex_obo_sm : sessmap := [(1%N, 1%N); (2%N, 2%N); (3%N, 3%N)].

Lemma obo_history_example :
  exists r, orun_c04 ex_obo_sm [1%N] (mkState ex_obo_s0 None 0) ex_obo_hist = Some r /\
  map (fun o => map (fun e => fst (fst e)) (data_of o)) (firstn 4 (skipn 11 (snd r))) =
    [[3; 2]; [3; 2]; [5; 4; 3; 1]; [5; 4; 3; 2; 1]] /\
  skipn 15 (snd r) = [[(1%N, MetaDel 3 [(1, 0); (4, 6)])]; [(2%N, MetaDel 3 [(1, 0); (4, 6)])]; [(1%N, MetaDel 1 [(2, 0)])];
                      [(2%N, Ctrl 403 [])]; [(1%N, Ctrl 400 [])]; [(1%N, Ctrl 400 [])]] /\
  dellog (st (fst r)) = [mkDel 1 1%N 2 3; mkDel 2 2%N 4 6; mkDel 3 2%N 1 2] /\
  map (fun m => (m_seq m, m_from m)) (msgs (st (fst r))) = [(1, 1%N); (2, 2%N); (3, 3%N); (4, 1%N); (5, 3%N)].
Proof. eexists. split; [vm_compute; reflexivity|]. vm_compute. repeat split. Qed.

Lemma obo_history_example_ok : ohist_ok_c04 ex_obo_sm [1%N] ex_obo_hist.
Proof.
  unfold ohist_ok_c04, ex_obo_hist. apply Forall_forall. intros fq H. apply in_map_iff in H.
  destruct H as [q [<- Hq]]. split; cbn [fst snd].
  - cbn in Hq. repeat (destruct Hq as [<-|Hq]; [cbn; try discriminate; exact Logic.I|]). destruct Hq.
  - destruct (snd q); cbn; auto.
Qed.

(* the same history continued: the root session leaves and comes back with {sub get="data del"}
   on behalf of user 2 - the subscription reply, then user 2's view of the history and of the
   deletion log; a second {sub get} while attached: 304 and nothing else; from a non-root session
   naming a user: 403 *)
Definition ex_obo_hist2 : list (fault * oreq_c04) :=
  ex_obo_hist ++ map (fun q => (NoFault, q))
   [QReq (OboUser 1) (OLeave 1 false); QSubGet (OboUser 2) 1 [] false (Some (0, 0, 0)) (Some (0, 0, 0));
    QSubGet (OboUser 3) 1 [] false (Some (0, 0, 0)) None;
    QSubGet (OboUser 3) 2 [] false (Some (0, 0, 0)) None].

Lemma obo_sub_get_example :
  exists r, orun_c04 ex_obo_sm [1%N] (mkState ex_obo_s0 None 0) ex_obo_hist2 = Some r /\
  skipn 21 (snd r) =
    [[(1%N, Ctrl 200 [])];
     [(1%N, Ctrl 200 []); (1%N, Data 3 3 9); (1%N, Data 2 2 8); (1%N, Ctrl 208 [(P_what, 1); (P_count, 2)]);
      (1%N, MetaDel 3 [(1, 0); (4, 6)])];
     [(1%N, Ctrl 304 [])]; [(2%N, Ctrl 403 [])]].
Proof. eexists. split; [vm_compute; reflexivity|]. vm_compute. reflexivity. Qed.
