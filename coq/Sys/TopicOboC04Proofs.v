(* C04, layer 2, acting on behalf of another user: proofs about Sys/TopicOboC04.v.

   1. who a request is executed as (Session.dispatch)
   2. one obo request = one specification transition attributed to the ACTING user; every history
   3. the answers of {get data} / {get del} and the effect of {del msg} depend on the acting
      user only: not on the session, not on the session's own user
   4. {get data} / {get del} after any obo history, in terms of the specification *)
From Coq Require Import ZArith NArith List Bool Lia Sorted.
From Tinode Require Import Base.Util Pure.Acs Pure.Ranges Pure.RangesProofs Sys.Topic Sys.TopicTac Sys.TopicFrame
  Sys.TopicNum Sys.TopicNumThm Sys.TopicMeta Sys.TopicInst Sys.TopicHist Sys.TopicHistProofs Sys.TopicHistInst Sys.TopicHistThm
  Sys.TopicOboC04.
Import ListNotations.
Open Scope Z_scope.

(* ------------------------------------------------------------------ *)
(* 1. dispatch                                                          *)

Lemma sess_uid_as sm sid u : sess_uid (sm_as_c04 sm sid u) sid = u.
Proof. unfold sess_uid, sm_as_c04. cbn [alookup]. rewrite N.eqb_refl. reflexivity. Qed.

Lemma sess_uid_as_other sm sid u sid' : sid' <> sid -> sess_uid (sm_as_c04 sm sid u) sid' = sess_uid sm sid'.
Proof.
  intros H. unfold sess_uid, sm_as_c04. cbn [alookup].
  replace (N.eqb sid' sid) with false by (symmetry; apply N.eqb_neq; exact H). reflexivity.
Qed.

(* only a root session can name another user; without extra.obo a request runs as the session's user *)
Lemma dispatch_own sm roots sid : dispatch_as_c04 sm roots sid OboNone = inl (sess_uid sm sid).
Proof. reflexivity. Qed.

Lemma dispatch_needs_root sm roots sid ob : has_obo_c04 ob = true -> is_root_c04 roots sid = false ->
  dispatch_as_c04 sm roots sid ob = inr 403.
Proof. intros H R. destruct ob; [discriminate| |]; cbn; rewrite R; reflexivity. Qed.

Lemma dispatch_root_user sm roots sid u : is_root_c04 roots sid = true -> u <> 0%N ->
  dispatch_as_c04 sm roots sid (OboUser u) = inl u.
Proof.
  intros R U. cbn. rewrite R. cbn. replace (u =? 0)%N with false by (symmetry; apply N.eqb_neq; exact U). reflexivity.
Qed.

Lemma dispatch_inl sm roots sid ob u : dispatch_as_c04 sm roots sid ob = inl u ->
  (ob = OboNone /\ u = sess_uid sm sid) \/ (ob = OboUser u /\ is_root_c04 roots sid = true /\ u <> 0%N).
Proof.
  destruct ob as [|v|]; cbn.
  - intros H. inv H. left. auto.
  - destruct (is_root_c04 roots sid); cbn; [|discriminate]. destruct (v =? 0)%N eqn:E; [discriminate|].
    intros H. inv H. right. repeat split. apply N.eqb_neq. exact E.
  - destruct (is_root_c04 roots sid); discriminate.
Qed.

(* a refused request: the reply, no store call, nothing changed *)
Lemma ostep_refused sm roots f x ob o sid code : op_sid o = Some sid ->
  dispatch_as_c04 sm roots sid ob = inr code ->
  ostep_c04 sm roots f x (ob, o) = Some (mkState (st x) (ca x) 0, [(sid, Ctrl code [])]).
Proof. intros S D. unfold ostep_c04. rewrite S, D. reflexivity. Qed.

Lemma ostep_needs_root sm roots f x ob o sid : op_sid o = Some sid ->
  has_obo_c04 ob = true -> is_root_c04 roots sid = false ->
  ostep_c04 sm roots f x (ob, o) = Some (mkState (st x) (ca x) 0, [(sid, Ctrl 403 [])]).
Proof. intros S H R. apply ostep_refused; [exact S|]. apply dispatch_needs_root; assumption. Qed.

(* a request that is executed is one [step] of the product model in which the session stands
   for the acting user *)
Lemma ostep_some sm roots f x ob o r : ostep_c04 sm roots f x (ob, o) = Some r ->
  (op_sid o = None /\ ob = OboNone /\ r = step_i sm f x o) \/
  (exists sid code, op_sid o = Some sid /\ dispatch_as_c04 sm roots sid ob = inr code /\
                    r = (mkState (st x) (ca x) 0, [(sid, Ctrl code [])])) \/
  (exists sid u, op_sid o = Some sid /\ dispatch_as_c04 sm roots sid ob = inl u /\
                 r = step_i (sm_as_c04 sm sid u) f x o).
Proof.
  unfold ostep_c04. destruct (op_sid o) as [sid|] eqn:S.
  - destruct (dispatch_as_c04 sm roots sid ob) as [u|code] eqn:D.
    + destruct (is_root_c04 roots sid && negb (root_req_ok_c04 x sid u ob o)); [discriminate|].
      intros H. inv H. right. right. exists sid, u. auto.
    + intros H. inv H. right. left. exists sid, code. auto.
  - destruct ob; cbn [has_obo_c04]; try discriminate. intros H. inv H. left. auto.
Qed.

(* an ordinary session without extra.obo, a root session inside the modelled fragment *)
Lemma ostep_acting sm roots f x ob o sid u : op_sid o = Some sid ->
  dispatch_as_c04 sm roots sid ob = inl u ->
  (is_root_c04 roots sid = true -> root_req_ok_c04 x sid u ob o = true) ->
  ostep_c04 sm roots f x (ob, o) = Some (step_i (sm_as_c04 sm sid u) f x o).
Proof.
  intros S D R. unfold ostep_c04. rewrite S, D.
  destruct (is_root_c04 roots sid); cbn [andb]; [rewrite (R eq_refl)|]; reflexivity.
Qed.

(* ------------------------------------------------------------------ *)
(* 2. the refinement                                                    *)

Lemma event_no_session sm x o ou : op_sid o = None -> event_of sm x o ou = HNone.
Proof. intros S. unfold event_of. destruct (ca x); [|reflexivity]. destruct o; try discriminate; reflexivity. Qed.

Lemma inv_hist_ncalls s cx n n' : inv_hist (mkState s cx n) -> inv_hist (mkState s cx n').
Proof. intros H. exact H. Qed.

Section Sim.
Variable sm : sessmap.
Variable roots : list N.

Lemma ostep_f_sim x fq x1 o1 : inv_hist x -> oreq_ok_c04 sm roots fq ->
  ostep_f_c04 sm roots x fq = Some (x1, o1) ->
  heq (abs (st x1)) (hs_step (abs (st x)) (oevent_c04 sm roots x (snd fq) o1)) /\ inv_hist x1.
Proof.
  intros I [OK FO] E. destruct fq as [f [ob o]]. cbn [fst snd] in *.
  unfold ostep_f_c04 in E. cbn [fst snd] in E.
  destruct (ostep_c04 sm roots f x (ob, o)) as [[y oy]|] eqn:ES; [|discriminate].
  destruct (ostep_some sm roots f x ob o (y, oy) ES) as [[S [-> R]]|[[sid [code [S [D R]]]]|[sid [u [S [D R]]]]]].
  - (* a request that belongs to no session: unload, restart *)
    assert (oevent_c04 sm roots x (OboNone, o) o1 = HNone) as EV.
    { unfold oevent_c04, acting_c04. cbn [fst snd]. rewrite S. reflexivity. }
    rewrite EV.
    assert (op_ok sm o) as OK' by (unfold op_ok; rewrite S; exact Logic.I).
    pose proof (step_f_sim del_ranges_i norm_ranges_i sm dr_exact_i x (f, o) I OK' FO) as [HS I1].
    unfold step_f in HS, I1. cbn [fst snd] in HS, I1. fold (step_i sm f x o) in HS, I1. rewrite <- R in HS, I1.
    rewrite (event_no_session sm x o _ S) in HS.
    destruct f; inv E; cbn [fst snd] in *; split; assumption.
  - (* refused by Session.dispatch *)
    inv R.
    assert (oevent_c04 sm roots x (ob, o) o1 = HNone) as EV.
    { unfold oevent_c04, acting_c04. cbn [fst snd]. rewrite S, D. reflexivity. }
    rewrite EV. cbn [hs_step]. destruct x as [s cx n0]. cbn [st ca ncalls] in *.
    destruct f; inv E; cbn [st]; (split; [apply heq_refl|]).
    + exact I.
    + exact I.
    + destruct I as [IN [I0 _]]. split; [|split; [exact I0|exact Logic.I]].
      destruct IN as [A [B C]]. split; [exact A|]. split; [exact B|]. cbn [ca st] in *.
      destruct cx as [c|]; [|exact C]. lia.
  - (* executed as user u *)
    assert (oevent_c04 sm roots x (ob, o) o1 = event_of (sm_as_c04 sm sid u) x o o1) as EV.
    { unfold oevent_c04, acting_c04. cbn [fst snd]. rewrite S, D. reflexivity. }
    rewrite EV.
    assert (op_ok (sm_as_c04 sm sid u) o) as OK'.
    { unfold op_ok. rewrite S. rewrite sess_uid_as. unfold acting_c04 in OK. cbn [fst snd] in OK. rewrite S, D in OK. exact OK. }
    pose proof (step_f_sim del_ranges_i norm_ranges_i (sm_as_c04 sm sid u) dr_exact_i x (f, o) I OK' FO) as [HS I1].
    unfold step_f in HS, I1. cbn [fst snd] in HS, I1. fold (step_i (sm_as_c04 sm sid u) f x o) in HS, I1.
    rewrite <- R in HS, I1.
    destruct f; inv E; cbn [fst snd] in *; split; assumption.
Qed.

(* what the stored rows show after a history with obo requests is what the specification computes
   from the accepted requests, each attributed to the user it was executed as *)
Lemma orun_refines h : forall x a xf outs, inv_hist x -> ohist_ok_c04 sm roots h -> heq (abs (st x)) a ->
  orun_c04 sm roots x h = Some (xf, outs) ->
  heq (abs (st xf)) (ohs_run_c04 sm roots x h a) /\ inv_hist xf.
Proof.
  induction h as [|fq h IH]; intros x a xf outs I HO E R; cbn [orun_c04 ohs_run_c04] in *.
  - inv R. split; assumption.
  - inversion HO as [|? ? OK HO']; subst.
    destruct (ostep_f_c04 sm roots x fq) as [[x1 o1]|] eqn:ES; [|discriminate].
    destruct (ostep_f_sim x fq x1 o1 I OK ES) as [HS I1].
    destruct (orun_c04 sm roots x1 h) as [[x2 os]|] eqn:ER; [|discriminate]. inv R.
    apply (IH x1 (hs_step a (oevent_c04 sm roots x (snd fq) o1)) xf os I1 HO'); [|exact ER].
    eapply heq_trans; [exact HS|]. apply hs_step_heq. exact E.
Qed.

(* with ANY faults: message numbers stay unique, log rows stay well formed *)
Definition log_minv (x : state) : Prop := minv dellog_wf log_inv x.

Lemma step_f_log_minv sm' x fo : log_minv x -> log_minv (fst (step_f del_ranges_i norm_ranges_i sm' x fo)).
Proof.
  apply (step_f_minv del_ranges_i norm_ranges_i sm' dellog_wf log_inv).
  - intros s H. split; [exact H|]. destruct H as [_ H]. exact H.
  - intros s c [H _]. exact H.
  - intros f s c n sid u w b [H HC]. split; [eapply dellog_wf_hsame; [apply sub_reply_h4|exact H]|].
    now rewrite (hframe_delid _ _ _ (sub_reply_frame f s c n sid u w b)).
  - intros f s c n sid u [H HC]. pose proof (leave_unsub_cases f s c n sid u) as L. cbn zeta in L.
    destruct L as [_ [LD [[_ UR]|[code [_ [_ E]]]]]]; (split; [|now rewrite LD]);
      [eapply dellog_wf_unsub; eassumption|now rewrite E].
  - intros s c sid u [H HC]. split; [exact H|]. destruct (leave_frame c sid u) as [_ [E _]]. now rewrite E.
  - intros f s c n sid u ct ne [[H H0] HC]. destruct (publish_h4 f s c n sid u ct ne) as [E1 [E2 [E3 _]]].
    split; [|now rewrite E3]. unfold dellog_wf. now rewrite E1, E2.
  - intros f s c n sid u w q [H HC]. split; [eapply dellog_wf_hsame; [apply note_h4|exact H]|].
    now rewrite (hframe_delid _ _ _ (note_frame f s c n sid u w q)).
  - intros f s c n sid u r hd H. apply (del_msg_wf del_ranges_i dr_wf_i). exact H.
  - intros f s c n sid u t m [H HC]. split; [eapply dellog_wf_hsame; [apply set_sub_h4|exact H]|].
    now rewrite (hframe_delid _ _ _ (set_sub_frame f s c n sid u t m)).
  - intros f s c n sid u t [H HC]. pose proof (del_sub_cases f s c n sid u t) as L. cbn zeta in L.
    destruct L as [_ [LD [[_ [_ UR]]|[code [_ [_ E]]]]]]; (split; [|now rewrite LD]);
      [eapply dellog_wf_unsub; eassumption|now rewrite E].
  - intros f s sid u t m H. eapply dellog_wf_hsame; [apply offline_set_sub_hsame|exact H].
  - intros f s c sid u t m [H HC]. split; [|exact HC]. eapply dellog_wf_hsame; [apply offline_set_sub_hsame|exact H].
Qed.

Lemma log_minv_wf x : log_minv x -> dellog_wf (st x).
Proof. unfold log_minv, minv. destruct (ca x); [intros [A _]; exact A|auto]. Qed.

Lemma ostep_f_rows x fq x1 o1 : inv_num x -> log_minv x ->
  ostep_f_c04 sm roots x fq = Some (x1, o1) -> inv_num x1 /\ log_minv x1.
Proof.
  intros IN W E. destruct fq as [f [ob o]]. unfold ostep_f_c04 in E. cbn [fst snd] in E.
  destruct (ostep_c04 sm roots f x (ob, o)) as [[y oy]|] eqn:ES; [|discriminate].
  assert (forall sm', (y, oy) = step_i sm' f x o -> inv_num x1 /\ log_minv x1) as K.
  { intros sm' R.
    pose proof (step_f_inv_num del_ranges_i norm_ranges_i sm' x (f, o) IN) as I1.
    pose proof (step_f_log_minv sm' x (f, o) W) as W1.
    unfold step_f in I1, W1. cbn [fst snd] in I1, W1.
    fold (step_i sm' f x o) in I1, W1. rewrite <- R in I1, W1.
    destruct f; inv E; cbn [fst snd st ca] in *; split; assumption. }
  destruct (ostep_some sm roots f x ob o (y, oy) ES) as [[S [-> R]]|[[sid [code [S [D R]]]]|[sid [u [S [D R]]]]]].
  - exact (K sm R).
  - inv R. destruct x as [s cx n0]. cbn [st ca ncalls] in *.
    destruct f; inv E; cbn [st ca]; try (split; [exact IN|exact W]).
    split.
    + destruct IN as [A [B C]]. split; [exact A|]. split; [exact B|]. cbn [ca st] in *.
      destruct cx as [c|]; [|exact C]. lia.
    + apply log_minv_wf in W. exact W.
  - exact (K (sm_as_c04 sm sid u) R).
Qed.

Lemma orun_rows h : forall x xf outs, inv_num x -> log_minv x ->
  orun_c04 sm roots x h = Some (xf, outs) ->
  NoDup (seqs (st xf)) /\ dellog_wf (st xf).
Proof.
  induction h as [|fq h IH]; intros x xf outs IN W R; cbn [orun_c04] in R.
  - inv R. split; [apply IN|apply log_minv_wf; exact W].
  - destruct (ostep_f_c04 sm roots x fq) as [[x1 o1]|] eqn:ES; [|discriminate].
    destruct (ostep_f_rows x fq x1 o1 IN W ES) as [I1 W1].
    destruct (orun_c04 sm roots x1 h) as [[x2 os]|] eqn:ER; [|discriminate]. inv R.
    exact (IH x1 xf os I1 W1 ER).
Qed.
End Sim.
