(* Executable model of the message fan-out of one topic of tinode/chat:
     server/session.go  Session.publish 685-731 (routing, sender header scrubbing), queueOut 314-356
     server/topic.go    handlePubBroadcast 1058-1101, saveAndBroadcastMessage 965-1054 (write check,
                        second scrubbing of head.sender, id, ack, SkipSid), broadcastToSessions 1252-1338
                        (the {data} branch), prepareBroadcastableMessage 245-274, userIsReader 239-242,
                        original 3562-3579, addSession / remSession 3675-3741, unregisterSession
     server/datamodel.go ServerComMessage.copy / MsgServerData.copy 601-607 (shallow: Head map shared)
     server/push.go     pushForData 27-85, sendPush 188-230
   and, as the ENVIRONMENT in which publishes happen, of the requests that change what the fan-out
   reads: {sub} (handleSubscription / subscriptionReply / thisUserSub), {leave} (handleLeaveRequest),
   {leave unsub} (replyLeaveUnsub / evictUser), {set sub} (thisUserSub / anotherUserSub),
   {del sub} (replyDelSub), connection closed (Session.cleanUp -> unsubAll).

   The fan-out functions ([publish], [bcast_loop], [prepare], [push_rcpt], [scrub]) are total and are
   stated for EVERY state (any number of users and sessions, any permission bits, consistent or not).
   One [step] = one client request handled to quiescence by the topic goroutine.

   Scope of the environment part (requests outside it give [None] = out of scope, [run] skips them):
   no cluster (no proxy / multiplexing sessions, acting uid never zero), no background sessions, topic
   never paused / deleted / unloaded, store never fails (background sessions and store faults: the
   environment is re-translated with both in Sys/FanoutBkgC02.v, which reuses the fan-out functions
   of this file unchanged), every request of an auth-level session or of a
   root session acting on behalf of a user (extra.obo, default level auth); no ownership transfer, no
   invitation of absent users by {set sub user}, no mode changes of channel readers, no re-subscription
   of a user whose subscription was deleted, the two participants of a p2p topic never both
   unsubscribe.  head.webrtc (video calls, C15) is a separate outcome [PCallPath].

   A session whose send buffer is full is modelled explicitly ([st_full]): the copy is not delivered
   ([Overflow]) and the session is detached, exactly the `default:` branch of queueOut and the
   dropSessions loop; [st_full] is constant during one publish.

   Tokens: user and session ids, content and header values are [N]; uid 0 = the zero uid / the empty
   From.  Go map iteration order is one arbitrary order: lists here, theorems up to permutation.

   Definitions only.  Proofs are in Sys/FanoutProofs.v. *)
From Coq Require Import ZArith NArith List Bool.
Import ListNotations.
Open Scope N_scope.

Definition uid := N.
Definition sid := N.
Definition mode := N.

(* types.AccessMode bits *)
Definition bJ : mode := 1.
Definition bR : mode := 2.
Definition bW : mode := 4.
Definition bP : mode := 8.
Definition bA : mode := 16.
Definition bS : mode := 32.
Definition bD : mode := 64.
Definition bO : mode := 128.
Definition mode_cp2p : mode := 31.        (* ModeCP2P = JRWPA *)
Definition mode_chnreader : mode := 11.   (* ModeCChnReader = JRP *)

Definition has (m b : mode) : bool := negb (N.land m b =? 0).
Definition better_equal (grant want : mode) : bool := N.land grant want =? want.   (* BetterEqual *)

Section Assoc.
  Context {A : Type}.
  Fixpoint lookup (k : N) (l : list (N * A)) : option A :=
    match l with
    | [] => None
    | (k', v) :: r => if k =? k' then Some v else lookup k r
    end.
  Definition has_key (k : N) (l : list (N * A)) : bool :=
    match lookup k l with Some _ => true | None => false end.
  Fixpoint update (k : N) (f : A -> A) (l : list (N * A)) : list (N * A) :=
    match l with
    | [] => []
    | (k', v) :: r => if k =? k' then (k', f v) :: r else (k', v) :: update k f r
    end.
  Definition remove_key (k : N) (l : list (N * A)) : list (N * A) :=
    filter (fun kv => negb (fst kv =? k)) l.
End Assoc.

Fixpoint mem (k : N) (l : list N) : bool :=
  match l with [] => false | x :: r => (k =? x) || mem k r end.

(* ------------------------------------------------------------------ *)
(* topic kinds; the names a topic goes by on the wire *)
Inductive kind := KGrp | KChn | KP2P.     (* group, channel-enabled group (isChan), peer to peer *)
Inductive tname :=
| TGrp                 (* grpXXX *)
| TChn                 (* chnXXX: types.GrpToChn *)
| TUsr (u : uid)       (* usrXXX: a p2p topic as seen by the other participant *)
| TP2P.                (* p2pXXXXXX: the internal name of a p2p topic *)

(* perUserData: modeWant, modeGiven, deleted, isChan, topicName (p2p: the other participant), online *)
Record pud := mkPud {
  pu_want : mode; pu_given : mode; pu_deleted : bool; pu_ischan : bool; pu_peer : uid; pu_online : Z }.
Definition zero_pud : pud := mkPud 0 0 false false 0 0%Z.
(* perSessionData of an ordinary session: uid (the user the session acts for), isChanSub *)
Record psd := mkPsd { ss_uid : uid; ss_chan : bool }.

Record state := mkState {
  st_kind : kind;
  st_owner : uid;                      (* Topic.owner (zero for p2p) *)
  st_defacs : mode;                    (* Topic.accessAuth (zero for p2p) *)
  st_users : list (uid * pud);         (* Topic.perUser *)
  st_sess : list (sid * psd);          (* Topic.sessions *)
  st_lastid : Z;                       (* Topic.lastID *)
  st_full : list sid;                  (* connections whose send buffer is full *)
  st_chanrows : list (uid * mode);     (* stored chnXXX subscription rows: user -> modeWant *)
  st_gone : list uid }.                (* users whose grpXXX / p2p subscription row is soft-deleted *)

Definition set_users v s := mkState (st_kind s) (st_owner s) (st_defacs s) v (st_sess s) (st_lastid s) (st_full s) (st_chanrows s) (st_gone s).
Definition set_sess v s := mkState (st_kind s) (st_owner s) (st_defacs s) (st_users s) v (st_lastid s) (st_full s) (st_chanrows s) (st_gone s).
Definition set_lastid v s := mkState (st_kind s) (st_owner s) (st_defacs s) (st_users s) (st_sess s) v (st_full s) (st_chanrows s) (st_gone s).
Definition set_full v s := mkState (st_kind s) (st_owner s) (st_defacs s) (st_users s) (st_sess s) (st_lastid s) v (st_chanrows s) (st_gone s).
Definition set_chanrows v s := mkState (st_kind s) (st_owner s) (st_defacs s) (st_users s) (st_sess s) (st_lastid s) (st_full s) v (st_gone s).
Definition set_gone v s := mkState (st_kind s) (st_owner s) (st_defacs s) (st_users s) (st_sess s) (st_lastid s) (st_full s) (st_chanrows s) v.

(* `pud := t.perUser[uid]` : the zero value when absent *)
Definition get_pud (st : state) (u : uid) : pud :=
  match lookup u (st_users st) with Some p => p | None => zero_pud end.
(* `pud := t.perUser[uid]; ...; t.perUser[uid] = pud` : creates the entry when absent *)
Definition upsert (u : uid) (f : pud -> pud) (l : list (uid * pud)) : list (uid * pud) :=
  if has_key u l then update u f l else l ++ [(u, f zero_pud)].

Definition eff (p : pud) : mode := N.land (pu_want p) (pu_given p).
(* userIsReader(uid) *)
Definition user_is_reader (st : state) (u : uid) : bool := has (eff (get_pud st u)) bR.
Definition user_is_chan (st : state) (u : uid) : bool := pu_ischan (get_pud st u).

(* Topic.original(uid) *)
Definition original (st : state) (u : uid) : tname :=
  match st_kind st with
  | KP2P => match lookup u (st_users st) with Some p => TUsr (pu_peer p) | None => TP2P end
  | KChn => if user_is_chan st u then TChn else TGrp
  | KGrp => TGrp
  end.

(* ------------------------------------------------------------------ *)
(* message headers: a map from key tokens to value tokens *)
Definition K_SENDER : N := 0.
Definition K_WEBRTC : N := 1.
Definition head := list (N * N).
Definition hget (k : N) (h : head) : option N := lookup k h.
Definition hdel (k : N) (h : head) : head := remove_key k h.       (* delete(head, k) *)
Definition hset (k v : N) (h : head) : head := (k, v) :: hdel k h.  (* head[k] = v *)

(* one {pub} request as it leaves Session.dispatch *)
Record pubctx := mkPx {
  px_sid : sid;          (* the publishing connection *)
  px_real : uid;         (* Session.uid: the user who is logged in on it *)
  px_author : uid;       (* msg.AsUser: px_real, or the user named by extra.obo of a root session *)
  px_orig : tname;       (* msg.Original: the name the client wrote *)
  px_noecho : bool;
  px_hasid : bool;       (* msg.Id != "" *)
  px_content : N;
  px_head : head }.      (* as sent by the client, a forged `sender` included *)

(* the sender header, done once in Session.publish (695-706) and again in saveAndBroadcastMessage
   (976-985): set to the session's real user iff it acts on behalf of another user, else removed *)
Definition scrub (px : pubctx) (h : head) : head :=
  if negb (px_author px =? px_real px) then hset K_SENDER (px_real px) h else hdel K_SENDER h.

(* the payload of a {data} frame as one session receives it *)
Record frame := mkFrame { f_topic : tname; f_from : uid; f_seq : Z; f_content : N; f_head : head }.
Inductive delivery := Sent (f : frame) | Overflow.

(* prepareBroadcastableMessage(msgCopy, pssd.uid, pssd.isChanSub) applied to the copy *)
Definition prepare (st : state) (d : psd) (f : frame) : frame :=
  let f1 :=
    match st_kind st with
    | KP2P => if ss_uid d =? 0 then f
              else mkFrame (original st (ss_uid d)) (f_from f) (f_seq f) (f_content f) (f_head f)
    | KChn => mkFrame (if ss_chan d then TChn else original st (ss_uid d)) (f_from f) (f_seq f) (f_content f) (f_head f)
    | KGrp => f
    end in
  if ss_chan d then mkFrame (f_topic f1) 0 (f_seq f1) (f_content f1) (f_head f1) else f1.

Definition is_full (st : state) (s : sid) : bool := mem s (st_full st).

(* broadcastToSessions for a {data} message: the loop over t.sessions.  skip = msg.SkipSid. *)
Fixpoint bcast_loop (st : state) (skip : option sid) (msg : frame) (l : list (sid * psd)) : list (sid * delivery) :=
  match l with
  | [] => []
  | (s, d) :: r =>
    if match skip with Some k => s =? k | None => false end then bcast_loop st skip msg r        (* continue *)
    else if negb (user_is_reader st (ss_uid d)) && negb (ss_chan d) then bcast_loop st skip msg r (* continue *)
    else
      let cp := prepare st d msg in                       (* msg.copy(); prepareBroadcastableMessage *)
      (s, if is_full st s then Overflow else Sent cp) :: bcast_loop st skip msg r
  end.

Fixpoint overflowed (l : list (sid * delivery)) : list sid :=
  match l with
  | [] => []
  | (s, Overflow) :: r => s :: overflowed r
  | (_, Sent _) :: r => overflowed r
  end.
Fixpoint sent (l : list (sid * delivery)) : list (sid * frame) :=
  match l with
  | [] => []
  | (s, Sent f) :: r => (s, f) :: sent r
  | (_, Overflow) :: r => sent r
  end.

(* pushForData: receipt.To and whether receipt.Channel is set; nil receipt when both are empty *)
Definition push_wanted (p : pud) : bool :=
  has (eff p) bP && has (eff p) bR && negb (pu_deleted p) && negb (pu_ischan p).
Definition push_to (st : state) : list uid := map fst (filter (fun up => push_wanted (snd up)) (st_users st)).
Definition push_rcpt (st : state) : option (list uid * bool) :=
  let to := push_to st in
  let ch := match st_kind st with KChn => true | _ => false end in
  match to with
  | [] => if ch then Some ([], true) else None
  | _ => Some (to, ch)
  end.

(* unregisterSession of a dropped session / of a closed connection: handleLeaveRequest with init=false
   (asUid zero, asChan false): the session is removed; the online counter of its user is decremented
   unless it was a channel subscription (early return at 725-732) *)
Definition drop_session (st : state) (s : sid) : state :=
  match lookup s (st_sess st) with
  | None => st
  | Some d =>
    let st1 := set_sess (remove_key s (st_sess st)) st in
    if ss_chan d then st1
    else set_users (upsert (ss_uid d) (fun p => mkPud (pu_want p) (pu_given p) (pu_deleted p) (pu_ischan p) (pu_peer p) (pu_online p - 1)%Z)
                           (st_users st1)) st1
  end.

(* the {ctrl 202 params.seq} reply: none when the request had no id; lost when the publisher's own queue is full *)
Inductive ack_result := AckNone | AckSent (topic : tname) | AckLost.

Inductive pub_result :=
| PNotAttached       (* Session.publish: not attached, 409 *)
| PCallPath          (* head.webrtc present: the call machinery, not modelled here *)
| PDenied            (* 403: the author has no W in want & given *)
| PAccepted (seq : Z) (ack : ack_result) (copies : list (sid * delivery)) (push : option (list uid * bool)).

Definition data_msg (st : state) (px : pubctx) : frame :=
  mkFrame (px_orig px) (px_author px) (st_lastid st + 1)%Z (px_content px) (scrub px (scrub px (px_head px))).

(* the copies of an accepted publish: broadcastToSessions(data) *)
Definition fanout_all (st : state) (px : pubctx) : list (sid * delivery) :=
  bcast_loop st (if px_noecho px then Some (px_sid px) else None) (data_msg st px) (st_sess st).
Definition fanout (st : state) (px : pubctx) : list (sid * frame) := sent (fanout_all st px).

Definition accepts (st : state) (px : pubctx) : bool :=
  has_key (px_sid px) (st_sess st) && negb (has_key K_WEBRTC (scrub px (px_head px)))
  && has (eff (get_pud st (px_author px))) bW.

Definition publish (st : state) (px : pubctx) : pub_result * state :=
  if negb (has_key (px_sid px) (st_sess st)) then (PNotAttached, st)
  else if has_key K_WEBRTC (scrub px (px_head px)) then (PCallPath, st)
  else if negb (has (eff (get_pud st (px_author px))) bW) then (PDenied, st)
  else
    let seq := (st_lastid st + 1)%Z in
    let ack := if px_hasid px then (if is_full st (px_sid px) then AckLost else AckSent (original st (px_author px))) else AckNone in
    let copies := fanout_all st px in
    let push := push_rcpt st in
    let st1 := set_lastid seq st in
    (PAccepted seq ack copies push, fold_left drop_session (overflowed copies) st1).

(* ------------------------------------------------------------------ *)
(* the environment: requests that change what the fan-out reads *)

Definition set_pud_modes (w g : mode) (p : pud) : pud := mkPud w g (pu_deleted p) (pu_ischan p) (pu_peer p) (pu_online p).
Definition set_pud_online (n : Z) (p : pud) : pud := mkPud (pu_want p) (pu_given p) (pu_deleted p) (pu_ischan p) (pu_peer p) n.

(* evictUser(uid, unsub, _) *)
Definition evict_user (st : state) (u : uid) (unsub : bool) : state :=
  let users :=
    if unsub then
      match st_kind st with
      | KP2P => upsert u (fun p => mkPud (pu_want p) (pu_given p) true (pu_ischan p) (pu_peer p) 0%Z) (st_users st)
      | _ => remove_key u (st_users st)
      end
    else match lookup u (st_users st) with
         | Some p => if pu_ischan p then remove_key u (st_users st) else update u (set_pud_online 0%Z) (st_users st)
         | None => st_users st
         end in
  set_sess (filter (fun sd => negb (ss_uid (snd sd) =? u)) (st_sess st)) (set_users users st).

(* addSession + online++ *)
Definition add_session (st : state) (s : sid) (u : uid) (chan : bool) : state :=
  let st1 := if has_key s (st_sess st) then st else set_sess (st_sess st ++ [(s, mkPsd u chan)]) st in
  set_users (upsert u (fun p => set_pud_online (pu_online p + 1)%Z p) (st_users st1)) st1.

Definition chan_ok (st : state) (chan : bool) : bool :=        (* verifyChannelAccess *)
  negb chan || match st_kind st with KChn => true | _ => false end.

(* {sub} without a mode, by connection s acting for u, spelled chnXXX iff chan *)
Definition attach (st : state) (s : sid) (u : uid) (chan : bool) : option state :=
  if has_key s (st_sess st) then Some st                               (* 304 already subscribed *)
  else if negb (chan_ok st chan) then Some st                          (* 404 *)
  else match lookup u (st_users st) with
  | Some p =>
    if pu_deleted p then None
    else if negb (pu_ischan p) && chan then Some st                    (* 303 use the other name *)
    else
      (* no mode requested: un-self-ban if the user had banned himself *)
      let want := if has (pu_want p) bJ then pu_want p
                  else let w := N.lor (pu_given p) (st_defacs st) in
                       if st_owner st =? u then w else N.ldiff w bO in
      let st1 := set_users (update u (set_pud_modes want (pu_given p)) (st_users st)) st in
      if negb (has want bJ) then
        (* still no J: the user is evicted; subscriptionReply attaches the session all the same when
           nothing changed (modeChanged == nil leaves hasJoined = true) *)
        (if want =? pu_want p then Some (add_session (evict_user st1 u false) s u chan)
         else Some (evict_user st1 u false))
      else if negb (has (pu_given p) bJ) then Some st1                 (* 403 banned *)
      else Some (add_session st1 s u chan)
  | None =>
    match st_kind st with
    | KP2P => Some st                                                  (* 403: given = N *)
    | _ =>
      if chan then
        (* first connection of a channel reader: given = JRP, want from the stored chnXXX row *)
        let want := match lookup u (st_chanrows st) with Some w => w | None => mode_chnreader end in
        let rows := if has_key u (st_chanrows st) then st_chanrows st else st_chanrows st ++ [(u, want)] in
        let st1 := set_chanrows rows (set_users (st_users st ++ [(u, mkPud want mode_chnreader false true 0 0%Z)]) st) in
        Some (add_session st1 s u true)
      else if mem u (st_gone st) then None
      else
        (* new subscriber: default access *)
        if negb (has (st_defacs st) bJ) then Some st                   (* 403 *)
        else Some (add_session (set_users (st_users st ++ [(u, mkPud (st_defacs st) (st_defacs st) false false 0 0%Z)]) st) s u false)
    end
  end.

(* {leave} by connection s acting for u, spelled chnXXX iff chan *)
Definition detach (st : state) (s : sid) (u : uid) (chan : bool) : option state :=
  match lookup s (st_sess st) with
  | None => Some st
  | Some d =>
    if negb (ss_uid d =? u) then Some st                                (* remSession: not this user's *)
    else
      let asChan := chan && chan_ok st chan in
      let st1 := set_sess (remove_key s (st_sess st)) st in
      if negb (Bool.eqb (ss_chan d) asChan) then Some st1
      else
        let p := get_pud st1 u in
        let n := (pu_online p - 1)%Z in
        let st2 := set_users (upsert u (set_pud_online n) (st_users st1)) st1 in
        match st_kind st with
        | KP2P => Some st2
        | _ => if (n =? 0)%Z && asChan then Some (set_users (remove_key u (st_users st2)) st2) else Some st2
        end
  end.

(* {leave unsub} by an attached connection acting for u *)
Definition unsub (st : state) (s : sid) (u : uid) (chan : bool) : option state :=
  if negb (has_key s (st_sess st)) then Some st                         (* 409 *)
  else if st_owner st =? u then Some st                                 (* 403 *)
  else if negb (chan_ok st chan) then Some st                           (* 404 *)
  else match lookup u (st_users st) with
  | None => None
  | Some p =>
    if pu_deleted p then None
    else match st_kind st with
    | KP2P =>
      if existsb (fun up => negb (fst up =? u) && pu_deleted (snd up)) (st_users st) then None
      else Some (set_gone (u :: st_gone st) (evict_user st u true))
    | _ =>
      if pu_ischan p then Some (set_chanrows (remove_key u (st_chanrows st)) (evict_user st u true))
      else Some (set_gone (u :: st_gone st) (evict_user st u true))
    end
  end.

(* {set sub mode=m} by u on his own subscription (grpXXX / usrXXX spelling) *)
Definition set_want (st : state) (u : uid) (m : mode) : option state :=
  match lookup u (st_users st) with
  | None => None
  | Some p =>
    if pu_deleted p || pu_ischan p then None
    else if (st_owner st =? u) && (negb (has m bO) || negb (has m bJ)) then Some st      (* 403 *)
    else if has (pu_given p) bO && has m bO && negb (has (pu_want p) bO) then None       (* ownership transfer *)
    else if negb (has (pu_given p) bO) && has m bO then Some st                           (* 403 *)
    else
      let given :=
        if has (pu_given p) bO then
          (if has m bO && negb (better_equal (pu_given p) m) then N.lor (pu_given p) m else pu_given p)
        else match st_kind st with
             | KP2P => pu_given p
             | _ => if has (pu_given p) bA && has m bA && negb (better_equal (pu_given p) (N.ldiff m bD))
                    then N.lor (pu_given p) (N.ldiff m bD) else pu_given p
             end in
      let want := match st_kind st with KP2P => N.lor (N.land m mode_cp2p) bA | _ => m end in
      let st1 := set_users (update u (set_pud_modes want given) (st_users st)) st in
      if negb (has want bJ) then Some (evict_user st1 u false) else Some st1
  end.

(* {set sub user=u mode=m} by host h *)
Definition set_given (st : state) (h u : uid) (m : mode) : option state :=
  if h =? u then None
  else match lookup h (st_users st) with
  | None => Some st                                                     (* 403 *)
  | Some hp =>
    let hm := eff hp in
    if negb (has hm bO || has hm bA) then Some st                       (* 403: not an admin *)
    else
      let m := match st_kind st with KP2P => N.lor (N.land m mode_cp2p) bA | _ => m end in
      if has m bO then (if st_owner st =? h then None else Some st)
      else match lookup u (st_users st) with
      | None => None
      | Some p =>
        if pu_deleted p || pu_ischan p then None
        else if (st_owner st =? u) then Some st                         (* 403: cannot strip the owner *)
        else
          let st1 := set_users (update u (set_pud_modes (pu_want p) m) (st_users st)) st in
          if negb (has m bJ) then Some (evict_user st1 u false) else Some st1
      end
  end.

(* {del sub user=u} by host h *)
Definition evict (st : state) (h u : uid) : option state :=
  let hm := eff (get_pud st h) in
  if negb (has hm bO || has hm bA) then Some st
  else if (u =? 0) || (u =? h) then Some st
  else match st_kind st with
  | KP2P => Some st
  | _ =>
    match lookup u (st_users st) with
    | None => Some st
    | Some p =>
      if pu_ischan p then None
      else if has (eff p) bO then Some st
      else if negb (has (pu_want p) bJ) then Some st
      else Some (set_gone (u :: st_gone st) (evict_user st u true))
    end
  end.

Inductive op :=
| OAttach (s : sid) (u : uid) (chan : bool)
| ODetach (s : sid) (u : uid) (chan : bool)
| ODisc (s : sid)
| OUnsub (s : sid) (u : uid) (chan : bool)
| OSetWant (u : uid) (m : mode)
| OSetGiven (h u : uid) (m : mode)
| OEvict (h u : uid)
| OClog (s : sid)                    (* the connection stops reading and its buffer fills up *)
| OUnclog (s : sid)
| OPub (px : pubctx).

Definition rm (k : N) (l : list N) : list N := filter (fun x => negb (x =? k)) l.

(* one request: new state (None = outside the modelled scope) and, for a publish, its outcome *)
Definition step (st : state) (o : op) : option state * option pub_result :=
  match o with
  | OAttach s u c => (attach st s u c, None)
  | ODetach s u c => (detach st s u c, None)
  | ODisc s => (Some (set_full (rm s (st_full st)) (drop_session st s)), None)
  | OUnsub s u c => (unsub st s u c, None)
  | OSetWant u m => (set_want st u m, None)
  | OSetGiven h u m => (set_given st h u m, None)
  | OEvict h u => (evict st h u, None)
  | OClog s => (Some (if is_full st s then st else set_full (s :: st_full st) st), None)
  | OUnclog s => (Some (set_full (rm s (st_full st)) st), None)
  | OPub px => let (r, st') := publish st px in (Some st', Some r)
  end.

(* the {data} frames one request puts into session queues *)
Definition emitted (r : option pub_result) : list (sid * frame) :=
  match r with Some (PAccepted _ _ copies _) => sent copies | _ => [] end.

Fixpoint run (st : state) (ops : list op) : state * list (sid * frame) :=
  match ops with
  | [] => (st, [])
  | o :: r =>
    let (ost, res) := step st o in
    let st1 := match ost with Some s1 => s1 | None => st end in
    let (st2, tr) := run st1 r in
    (st2, emitted res ++ tr)
  end.

(* an empty loaded topic *)
Definition init (k : kind) (owner : uid) (defacs : mode) (users : list (uid * pud)) (rows : list (uid * mode)) : state :=
  mkState k owner defacs users [] 0%Z [] rows [].

(* ------------------------------------------------------------------ *)
(* The {info} branch of the same loop (broadcastToSessions 1285-1302): relays of {note} (read / recv
   receipts and key presses, handleNoteBroadcast 1105-1235) and {info} frames forwarded from another
   topic (Src != "").  Whether a read/recv note is stale is decided by the read/recv marks (C09) and is
   not modelled here; [note_permitted] is the permission part of handleNoteBroadcast. *)
Definition W_KP : N := 0.      (* "kp"; "kpa"/"kpv" are other tokens (3, 4): only "kp" has the same-user rule *)
Definition W_READ : N := 1.
Definition W_RECV : N := 2.

Record infoctx := mkIx {
  ix_skip : option sid;        (* msg.SkipSid: the originating session of a note relay *)
  ix_src : bool;               (* msg.Info.Src != "": forwarded from another topic, permissions checked there *)
  ix_skipsubs : list sid;      (* sessions that have a subscription to msg.Info.SkipTopic ([] when it is "") *)
  ix_what : N;
  ix_from : uid;               (* msg.Info.From *)
  ix_topic : tname;            (* msg.Info.Topic before the per-recipient rewrite *)
  ix_seq : Z }.

Record iframe := mkIFrame { i_topic : tname; i_from : uid; i_what : N; i_seq : Z }.
Inductive idelivery := ISent (f : iframe) | IOverflow.

(* prepareBroadcastableMessage for an {info}: only the topic name is per recipient *)
Definition prepare_info (st : state) (d : psd) (f : iframe) : iframe :=
  match st_kind st with
  | KP2P => if ss_uid d =? 0 then f else mkIFrame (original st (ss_uid d)) (i_from f) (i_what f) (i_seq f)
  | KChn => mkIFrame (if ss_chan d then TChn else original st (ss_uid d)) (i_from f) (i_what f) (i_seq f)
  | KGrp => f
  end.

Fixpoint info_loop (st : state) (ix : infoctx) (l : list (sid * psd)) : list (sid * idelivery) :=
  match l with
  | [] => []
  | (s, d) :: r =>
    if match ix_skip ix with Some k => s =? k | None => false end then info_loop st ix r
    else if negb (ix_src ix) && (ss_chan d || negb (user_is_reader st (ss_uid d))) then info_loop st ix r
    else if mem s (ix_skipsubs ix) then info_loop st ix r
    else if (ix_what ix =? W_KP) && (ix_from ix =? ss_uid d) then info_loop st ix r
    else
      let cp := prepare_info st d (mkIFrame (ix_topic ix) (ix_from ix) (ix_what ix) (ix_seq ix)) in
      (s, if is_full st s then IOverflow else ISent cp) :: info_loop st ix r
  end.

Definition info_fanout (st : state) (ix : infoctx) : list (sid * idelivery) := info_loop st ix (st_sess st).

Fixpoint isent (l : list (sid * idelivery)) : list (sid * iframe) :=
  match l with
  | [] => []
  | (s, ISent f) :: r => (s, f) :: isent r
  | (_, IOverflow) :: r => isent r
  end.

(* one {note what=kp|kpa|kpv|read|recv} from an attached session *)
Record notectx := mkNx {
  nx_sid : sid; nx_from : uid; nx_chan : bool; nx_orig : tname; nx_what : N; nx_seq : Z }.

(* the permission part of handleNoteBroadcast: bogus id, channel addressing, W for key presses, R for
   receipts (a deleted subscription has no permissions), nothing is relayed for a channel reader *)
Definition note_permitted (st : state) (nx : notectx) : bool :=
  let p := get_pud st (nx_from nx) in
  let m := if pu_deleted p then 0 else eff p in
  (nx_seq nx <=? st_lastid st)%Z && chan_ok st (nx_chan nx) && negb (nx_chan nx) &&
  (if (nx_what nx =? W_READ) || (nx_what nx =? W_RECV) then has m bR else has m bW).

Definition info_of_note (nx : notectx) : infoctx :=
  mkIx (Some (nx_sid nx)) false [] (nx_what nx) (nx_from nx) (nx_orig nx) (nx_seq nx).

(* the {info} frames a relayed note puts into session queues *)
Definition note_relay (st : state) (nx : notectx) : list (sid * idelivery) :=
  if note_permitted st nx then info_fanout st (info_of_note nx) else [].
