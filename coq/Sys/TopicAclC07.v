(* C07: who may write the permission fields of the group-topic model Sys/Topic.v.
   Definitions only: the projections the property reads (stored and cached want / given /
   deleted per user, attached sessions), the justification predicates ("an authorised
   request"), the invariants, and a decomposition of thisUserSub / anotherUserSub into
   named pieces (proved equal to the model's handlers by reflexivity in TopicAclC07Proofs.v).
   Nothing in Sys/Topic.v is changed. *)
From Coq Require Import ZArith NArith List Bool.
From Tinode Require Import Base.Util Pure.Acs Sys.Topic.
Import ListNotations.
Open Scope Z_scope.

(* ------------------------------------------------------------------ *)
(* projections                                                          *)
Definition sgiven (s : store) (v : N) : option N := option_map s_given (find_sub v (subs s)).
Definition swant (s : store) (v : N) : option N := option_map s_want (find_sub v (subs s)).
Definition sdeleted (s : store) (v : N) : option bool := option_map s_deleted (find_sub v (subs s)).
Definition cgiven (c : cache) (v : N) : option N := option_map p_given (alookup v (c_users c)).
Definition cwant (c : cache) (v : N) : option N := option_map p_want (alookup v (c_users c)).
Definition member (c : cache) (u : N) : bool :=
  match alookup u (c_users c) with Some _ => true | None => false end.

(* the cache a request sees: the loaded one, or what initTopicGrp/loadSubscribers builds *)
Definition view (x : state) : cache := match ca x with Some c => c | None => load (st x) end.

(* live (not soft-deleted) subscription rows *)
Definition live_rows (s : store) : list subrow := filter (fun r => negb (s_deleted r)) (subs s).
Definition live_count (s : store) : nat := length (live_rows s).

(* ------------------------------------------------------------------ *)
(* requests                                                             *)
Definition op_sid (o : op) : option N :=
  match o with
  | OSub a _ _ | OLeave a _ | OPub a _ _ | ONote a _ _ | OGetData a _ _ _ | OGetDesc a | OGetSub a
  | OGetDel a _ _ _ | ODelMsg a _ _ | OSetSub a _ _ | ODelSub a _ => Some a
  | OUnload | ORestart => None
  end.
Definition actor (sm : sessmap) (o : op) : N :=
  match op_sid o with Some sid => sess_uid sm sid | None => 0%N end.
(* every request comes from a logged-in session: Session.dispatch refuses the rest *)
Definition logged_in (sm : sessmap) (o : op) : Prop :=
  match op_sid o with Some sid => sess_uid sm sid <> 0%N | None => True end.

(* {sub}, or {set sub} without a user or naming the sender: a request about oneself *)
Definition own_request (a : N) (o : op) : Prop :=
  (exists sid w b, o = OSub sid w b) \/ (exists sid t m, o = OSetSub sid t m /\ (t = 0%N \/ t = a)).
(* {set sub user=v}: a request about somebody else *)
Definition other_request (a v : N) (o : op) : Prop :=
  exists sid m, o = OSetSub sid v m /\ v <> 0%N /\ v <> a.

(* [a] has been offered ownership by the owner and has not accepted yet *)
Definition pending_transferee (c : cache) (a : N) : Prop :=
  exists p, alookup a (c_users c) = Some p /\ is_owner (p_given p) = true /\ is_owner (p_want p) = false.

(* Why the granted mode of [v] may become [g'] at a request of [a], judged on the cache [c]
   the request sees and the store [s] before it. *)
(* ... a request about somebody else *)
Definition other_given_just (c : cache) (a v g' : N) : Prop :=
  member c a = true /\
  ((* 1 an approver or the owner sets it explicitly; the O bit only by the owner *)
   (is_admin (user_mode c a) = true /\ (is_owner g' = true -> c_owner c = a))
   \/ (* 2 a sharer (S, A or O) invites a user who has no subscription: the default grant *)
   (is_sharer (user_mode c a) = true /\ member c v = false /\ g' = N.lor (c_auth c) mJ)).
(* ... a request about oneself *)
Definition own_given_just (c : cache) (s : store) (a v g' : N) : Prop :=
  (* 3 own first or renewed subscription: the topic default, or the grant of the previous row *)
  (v = a /\ member c v = false /\
   (g' = c_auth c \/ exists r, find_sub v (subs s) = Some r /\ g' = s_given r))
  \/ (* 4 an administrator raises the own grant by anything except O and D *)
  (v = a /\ exists p mw, alookup v (c_users c) = Some p /\ is_admin (p_given p) = true /\
   is_owner (p_given p) = false /\ is_owner mw = false /\ g' = N.lor (p_given p) (N.ldiff mw mD))
  \/ (* 5 the holder of O in the grant (the owner or the accepting transferee) raises the own grant *)
  (v = a /\ exists p mw, alookup v (c_users c) = Some p /\ is_owner (p_given p) = true /\
   is_owner mw = true /\ g' = N.lor (p_given p) mw)
  \/ (* 6 the previous owner loses O when the transferee accepts *)
  (v <> a /\ v = c_owner c /\ pending_transferee c a /\ g' = N.ldiff (p_given (get_pud c v)) mO).
Definition given_just (c : cache) (s : store) (a : N) (o : op) (v g' : N) : Prop :=
  (other_request a v o /\ other_given_just c a v g') \/ (own_request a o /\ own_given_just c s a v g').

Definition other_want_just (c : cache) (s : store) (a v w' : N) : Prop :=
  (* 2 an invitation: the invitee's account default cut to the grant, or the want of the previous row *)
  member c a = true /\ is_sharer (user_mode c a) = true /\ member c v = false /\
  ((exists acc g, alookup v (users s) = Some acc /\ w' = N.land acc g) \/
   (exists r, find_sub v (subs s) = Some r /\ w' = s_want r)).
Definition own_want_just (c : cache) (a v w' : N) : Prop :=
  (* 1 the user's own request *)
  v = a
  \/ (* 3 the previous owner loses O when the transferee accepts *)
  (v <> a /\ v = c_owner c /\ pending_transferee c a /\ w' = N.ldiff (p_want (get_pud c v)) mO).
Definition want_just (c : cache) (s : store) (a : N) (o : op) (v w' : N) : Prop :=
  (other_request a v o /\ other_want_just c s a v w') \/ (own_request a o /\ own_want_just c a v w').

(* ------------------------------------------------------------------ *)
(* invariants                                                           *)
(* every attached session belongs to a cached subscriber *)
Definition sess_members (c : cache) : Prop :=
  forall sid u b, In (sid, (u, b)) (c_sess c) -> member c u = true.
(* ... whose grant has J *)
Definition attached_joiners (c : cache) : Prop :=
  forall sid u b, In (sid, (u, b)) (c_sess c) ->
    exists p, alookup u (c_users c) = Some p /\ is_joiner (p_given p) = true.

(* store rows: one per user *)
Definition rows_nodup (s : store) : Prop := NoDup (map s_user (subs s)).
(* every live row is cached *)
Definition live_cached (s : store) (c : cache) : Prop :=
  forall r, In r (subs s) -> s_deleted r = false -> member c (s_user r) = true.
Definition keys_nodup (c : cache) : Prop := NoDup (map fst (c_users c)).

(* the subscriber-limit invariant: holds under EVERY fault plan *)
Definition inv_limit (x : state) : Prop :=
  rows_nodup (st x) /\ (Z.of_nat (live_count (st x)) <= max_subs) /\
  match ca x with Some c => live_cached (st x) c /\ keys_nodup c | None => True end.

(* ownership bookkeeping needed by the writer laws (an ownership transfer writes the row of
   Topic.owner: a zero owner would address every row) *)
Definition eff_owner_row (r : subrow) : bool :=
  negb (s_deleted r) && is_owner (N.land (s_given r) (s_want r)) && negb (s_user r =? 0)%N.
Definition store_has_owner (s : store) : Prop := exists r, In r (subs s) /\ eff_owner_row r = true.
Definition cache_owner_ok (s : store) (c : cache) : Prop :=
  c_owner c <> 0%N /\
  (exists p, alookup (c_owner c) (c_users c) = Some p /\ is_owner (pud_mode p) = true) /\
  (exists r, find_sub (c_owner c) (subs s) = Some r /\ eff_owner_row r = true).
(* the cached grant of every cached user is the stored one, and cached users are exactly the live rows *)
Definition given_coherent (s : store) (c : cache) : Prop :=
  forall u p, alookup u (c_users c) = Some p ->
    exists r, find_sub u (subs s) = Some r /\ s_deleted r = false /\ s_given r = p_given p.
Definition users_nonzero (s : store) : Prop := forall r, In r (subs s) -> s_user r <> 0%N.

Definition inv_acl (x : state) : Prop :=
  rows_nodup (st x) /\ users_nonzero (st x) /\ store_has_owner (st x) /\
  match ca x with
  | Some c => cache_owner_ok (st x) c /\ given_coherent (st x) c /\ live_cached (st x) c /\ keys_nodup c
  | None => True
  end.

(* A store fault inside an ownership transfer (after the transferee's own row is written, at
   the write of the previous owner's row or of topics.owner) leaves cache and store split: the
   trigger excluded by the partial theorems. *)
Definition transfer_request (c : cache) (a : N) (o : op) : Prop := own_request a o /\ pending_transferee c a.

(* ------------------------------------------------------------------ *)
(* thisUserSub in pieces                                                *)
Definition tus_mw (want : list N) : N * bool :=
  match want with [] => (ModeUnset, true) | _ => unmarshal_text ModeUnset want end.

Definition tus_new (f : fault) (s : store) (c : cache) (n : nat) (u mw : N) (newsub_pkt : bool) : hres * sub_res :=
  let mk s c n o r := (mkH s c n o, r) in
  if max_subs <=? Z.of_nat (length (c_users c)) then mk s c n [] (SubErr 422) else
  let '(ok1, n1) := call f n in
  if negb ok1 then mk s c n1 [] (SubErr 500) else
  let prev := ad_sub_get s u true in
  let given0 := match prev with Some r => s_given r | None => ModeUnset end in
  let given := if (given0 =? ModeUnset)%N then c_auth c else given0 in
  let wantm := if (mw =? ModeUnset)%N then c_auth c else N.ldiff mw mO in
  if negb (is_joiner given) then mk s c n1 [] (SubErr 403) else
  let need_create := match prev with Some r => s_deleted r | None => true end in
  let '(ok2, n2) := if need_create then call f n1 else (true, n1) in
  if negb ok2 then mk s c n2 [] (SubErr 500) else
  let s2 := if need_create then ad_sub_create s u wantm given else s in
  let p := mkPud wantm given 0 0 0 0 in
  let c2 := c_set_users (aset u p) c in
  let changed := newsub_pkt || negb ((wantm =? 0)%N && (given =? 0)%N) in
  if negb (is_joiner wantm) then
    let '(c3, o3) := evict_user c2 u false 0%N in
    mk s2 c3 n2 o3 (SubOk (if changed then Some (wantm, given) else None))
  else mk s2 c2 n2 [] (SubOk (if changed then Some (wantm, given) else None)).

(* the sanity checks on an explicit want: Some (modeWant, modeGiven', ownerChange), None = 403 *)
Definition tus_chk (c : cache) (u mw oldw oldg : N) : option (N * N * bool) :=
  if (mw =? ModeUnset)%N then Some (mw, oldg, false) else
  if N.eqb (c_owner c) u && (negb (is_owner mw) || negb (is_joiner mw)) then None else
  if is_owner oldg then
    let oc := is_owner mw && negb (is_owner oldw) in
    let g' := if is_owner mw && negb (better_equal oldg mw) then N.lor oldg mw else oldg in
    Some (mw, g', oc)
  else if is_owner mw then None
  else if is_admin oldg && is_admin mw then
    let g' := if negb (better_equal oldg (N.ldiff mw mD)) then N.lor oldg (N.ldiff mw mD) else oldg in
    Some (mw, g', false)
  else Some (mw, oldg, false).

Definition tus_w1 (c : cache) (u mw1 g1 oldw : N) : N :=
  if (mw1 =? ModeUnset)%N then
    (if negb (is_joiner oldw) then
       (if N.eqb (c_owner c) u then N.lor g1 (c_auth c) else N.ldiff (N.lor g1 (c_auth c)) mO)
     else oldw)
  else mw1.

Definition tus_finish (u w1 g1 oldw oldg : N) (newsub_pkt : bool) (s3 : store) (c3 : cache) (n3 : nat) : hres * sub_res :=
  let mk s c n o r := (mkH s c n o, r) in
  let p1 := p_set_modes w1 g1 (get_pud c3 u) in
  let c4 := c_set_users (aset u p1) c3 in
  let changed := newsub_pkt || negb ((w1 =? oldw)%N && (g1 =? oldg)%N) in
  let ch := if changed then Some (w1, g1) else None in
  if negb (is_joiner w1) then
    let '(c5, o5) := evict_user c4 u false 0%N in mk s3 c5 n3 o5 (SubOk ch)
  else if negb (is_joiner g1) then mk s3 c4 n3 [] (SubErr 403)
  else mk s3 c4 n3 [] (SubOk ch).

Definition tus_exist (f : fault) (s : store) (c : cache) (n : nat) (u mw : N) (p0 : pud) (newsub_pkt : bool) : hres * sub_res :=
  let mk s c n o r := (mkH s c n o, r) in
  let oldw := p_want p0 in let oldg := p_given p0 in
  match tus_chk c u mw oldw oldg with
  | None => mk s c n [] (SubErr 403)
  | Some (mw1, g1, owner_change) =>
    let w1 := tus_w1 c u mw1 g1 oldw in
    let upd := mkUpd (if (w1 =? oldw)%N then None else Some w1) (if (g1 =? oldg)%N then None else Some g1) None None None in
    let need_upd := negb ((w1 =? oldw)%N && (g1 =? oldg)%N) in
    let '(ok1, n1) := if need_upd then call f n else (true, n) in
    if negb ok1 then mk s c n1 [] (SubErr 500) else
    let s1 := if need_upd then ad_subs_update s u upd else s in
    if owner_change then
      let prev := c_owner c in
      let pp := get_pud c prev in
      let pw := N.ldiff (p_want pp) mO in let pg := N.ldiff (p_given pp) mO in
      let '(ok2, n2) := call f n1 in
      if negb ok2 then mk s1 c n2 [] (SubErr 0) else
      let s2 := ad_subs_update s1 prev (mkUpd (Some pw) (Some pg) None None None) in
      let '(ok3, n3) := call f n2 in
      if negb ok3 then mk s2 c n3 [] (SubErr 0) else
      let s3 := st_owner u s2 in
      tus_finish u w1 g1 oldw oldg newsub_pkt s3 (c_set_owner u (c_set_users (aset prev (p_set_modes pw pg pp)) c)) n3
    else tus_finish u w1 g1 oldw oldg newsub_pkt s1 c n1
  end.

Definition tus (f : fault) (s : store) (c : cache) (n : nat) (u : N) (want : list N) (newsub_pkt : bool) : hres * sub_res :=
  let '(mw, okw) := tus_mw want in
  if negb okw then (mkH s c n [], SubErr 400) else
  match alookup u (c_users c) with
  | None => tus_new f s c n u mw newsub_pkt
  | Some p0 => tus_exist f s c n u mw p0 newsub_pkt
  end.

(* anotherUserSub in pieces *)
Definition aus_new (f : fault) (s : store) (c : cache) (n : nat) (target mg : N) : hres * sub_res :=
  let mk s c n o r := (mkH s c n o, r) in
  if max_subs <=? Z.of_nat (length (c_users c)) then mk s c n [] (SubErr 422) else
  let given := if (mg =? ModeUnset)%N then N.lor (c_auth c) mJ else mg in
  let '(ok1, n1) := call f n in
  if negb ok1 then mk s c n1 [] (SubErr 500) else
  let prev := ad_sub_get s target true in
  let wres : (nat * option (Z + N)) :=
    match prev with
    | Some r => (n1, Some (inr (s_want r)))
    | None =>
      let '(ok2, n2) := call f n1 in
      if negb ok2 then (n2, Some (inl 500)) else
      match alookup target (users s) with
      | None => (n2, Some (inl 404))
      | Some acc => (n2, Some (inr (N.land acc given)))
      end
    end in
  match wres with
  | (n2, Some (inl code)) => mk s c n2 [] (SubErr code)
  | (n2, None) => mk s c n2 [] (SubErr 500)
  | (n2, Some (inr wantm)) =>
    if negb (is_joiner wantm) then mk s c n2 [] (SubErr 403) else
    let '(ok3, n3) := call f n2 in
    if negb ok3 then mk s c n3 [] (SubErr 500) else
    let s3 := ad_sub_create s target wantm given in
    let c3 := c_set_users (aset target (mkPud wantm given 0 0 0 0)) c in
    let ch := Some (wantm, given) in
    if negb (is_joiner given) then
      let '(c4, o4) := evict_user c3 target false 0%N in mk s3 c4 n3 o4 (SubOk ch)
    else mk s3 c3 n3 [] (SubOk ch)
  end.

Definition aus_exist (f : fault) (s : store) (c : cache) (n : nat) (target mg : N) (pt : pud) : hres * sub_res :=
  let mk s c n o r := (mkH s c n o, r) in
  let oldg := p_given pt in
  if (mg =? ModeUnset)%N || (mg =? oldg)%N then
    if negb (is_joiner oldg) then
      let '(c4, o4) := evict_user c target false 0%N in mk s c4 n o4 (SubOk None)
    else mk s c n [] (SubOk None)
  else
    if N.eqb (c_owner c) target && (negb (is_owner mg) || negb (is_joiner mg)) then mk s c n [] (SubErr 403) else
    let '(ok1, n1) := call f n in
    if negb ok1 then mk s c n1 [] (SubErr 0) else
    let s1 := ad_subs_update s target (mkUpd None (Some mg) None None None) in
    let c1 := c_set_users (aset target (p_set_modes (p_want pt) mg pt)) c in
    let ch := Some (p_want pt, mg) in
    if negb (is_joiner mg) then
      let '(c4, o4) := evict_user c1 target false 0%N in mk s1 c4 n1 o4 (SubOk ch)
    else mk s1 c1 n1 [] (SubOk ch).

Definition aus (f : fault) (s : store) (c : cache) (n : nat) (u target : N) (mode : list N) : hres * sub_res :=
  let mk s c n o r := (mkH s c n o, r) in
  match alookup u (c_users c) with
  | None => mk s c n [] (SubErr 403)
  | Some hp =>
    let hmode := pud_mode hp in
    if negb (is_sharer hmode) then mk s c n [] (SubErr 403) else
    let '(mg, okg) := tus_mw mode in
    if negb okg then mk s c n [] (SubErr 400) else
    if negb (mg =? ModeUnset)%N && negb (is_admin hmode) then mk s c n [] (SubErr 403) else
    if is_owner mg && negb (N.eqb (c_owner c) u) then mk s c n [] (SubErr 403) else
    match alookup target (c_users c) with
    | None => aus_new f s c n target mg
    | Some pt => aus_exist f s c n target mg pt
    end
  end.

(* ------------------------------------------------------------------ *)
(* the trigger of the finding "banned-user-attached": a {sub} from a cached subscriber that
   changes nothing and leaves the requested mode without J is answered 200 and the session
   is attached (subscriptionReply treats "no mode change" as "has joined"). *)
Definition stale_cond (c : cache) (u : N) (want : list N) : bool :=
  match alookup u (c_users c) with
  | None => false
  | Some p0 =>
    let '(mw, okw) := tus_mw want in
    okw &&
    match tus_chk c u mw (p_want p0) (p_given p0) with
    | None => false
    | Some (mw1, g1, _) =>
      let w1 := tus_w1 c u mw1 g1 (p_want p0) in
      negb (is_joiner w1) && (w1 =? p_want p0)%N && (g1 =? p_given p0)%N
    end
  end.
Definition stale_ban_sub (sm : sessmap) (x : state) (o : op) : bool :=
  match o with
  | OSub sid want _ => stale_cond (view x) (sess_uid sm sid) want
  | _ => false
  end.

(* ------------------------------------------------------------------ *)
(* the writer laws of one request: stored and cached want / given of every user *)
Definition step_laws (sm : sessmap) (x : state) (o : op) (x' : state) : Prop :=
  let c := view x in let s := st x in let a := actor sm o in
  (forall v, sgiven (st x') v = sgiven s v \/ exists g', sgiven (st x') v = Some g' /\ given_just c s a o v g') /\
  (forall v, swant (st x') v = swant s v \/ exists w', swant (st x') v = Some w' /\ want_just c s a o v w') /\
  (forall c', ca x' = Some c' -> forall v g', cgiven c' v = Some g' -> cgiven c v = Some g' \/ given_just c s a o v g') /\
  (forall c', ca x' = Some c' -> forall v w', cwant c' v = Some w' -> cwant c v = Some w' \/ want_just c s a o v w').

(* A FAILING (not crashing) topics.owner write in an accepted ownership transfer: the third
   store call of the request (after the two calls of a topic load, when the topic was not
   loaded).  The trigger excluded by the partial writer theorems. *)
Definition transfer_split (sm : sessmap) (f : fault) (x : state) (o : op) : Prop :=
  own_request (actor sm o) o /\ pending_transferee (view x) (actor sm o) /\
  f = FailAt (match ca x with Some _ => 3 | None => 5 end).
