(* C18  Soundness of the collecting check [wf_tx] w.r.t. the oracle semantics
   [exec], for EVERY program and EVERY oracle (no bound on loop counts, on the
   number of failing statements or on program size), and the reading of
   [atomic_run] in terms of the driver-level trace. *)
From Coq Require Import List Bool Arith String Lia.
From Tinode Require Import Sys.TxIR.
Import ListNotations.

(* ---------- abstraction commutes with the primitive state changes ---------- *)
Lemma abs_emit e st : abs (emit e st) = aemit e (abs st).
Proof. reflexivity. Qed.
Lemma abs_cset f st : abs (cset f st) = aset f (abs st).
Proof. reflexivity. Qed.
Lemma abs_cpush d st : abs (cpush d st) = apush d (abs st).
Proof. reflexivity. Qed.
Lemma abs_ckinc st : abs (ckinc st) = abs st.
Proof. reflexivity. Qed.
Lemma abs_ask o a st : abs (snd (ask o a st)) = abs st.
Proof. reflexivity. Qed.
Lemma abs_nodefers st : abs (cnodefers st) = anodefers (abs st).
Proof. reflexivity. Qed.

Lemma aemit_ev_exec x k pt : aemit (ev_exec x k) pt = aemit (ev_exec x 0) pt.
Proof. destruct x; reflexivity. Qed.

Lemma in_dedup x l : In x l -> In x (dedup l).
Proof. intros H. apply nodup_In. exact H. Qed.

Lemma memp_in x l : memp x l = true -> In x l.
Proof. unfold memp. destruct (in_dec apoint_eq_dec x l); [auto|discriminate]. Qed.

Definition stuck_in (l : list (apoint * sig)) : Prop := exists q, In (q, SgStuck) l.

Section Sound.
Variable ctxrb sticky : bool.
Variable fuel : nat.
Variable o : nat -> nat.

Notation CE := (cexec ctxrb sticky o).
Notation AE := (aexec ctxrb sticky fuel).

Lemma ceval_sound e st :
  In (fst (ceval o e st), abs (snd (ceval o e st))) (aeval e (abs st)).
Proof.
  destruct e; simpl; auto.
  destruct (bool_of (o (c_n st))); simpl; auto.
Qed.

Lemma ccond_sound c : forall st,
  abs (snd (ccond o c st)) = abs st /\ In (fst (ccond o c st)) (acond c (abs st)).
Proof.
  induction c; intros st; simpl.
  - auto.
  - auto.
  - change (a_env (abs st)) with (c_env st).
    destruct (is_codev (look v (c_env st))); simpl.
    + split; [reflexivity|]. destruct (bool_of (o (c_n st))); simpl; auto.
    + auto.
  - split; [reflexivity|]. destruct (bool_of (o (c_n st))); simpl; auto.
  - destruct (IHc st) as [Ha Hb]. destruct (ccond o c st) as [b st1]. simpl in *.
    split; [exact Ha|]. apply in_map. exact Hb.
  - destruct (IHc1 st) as [Ha Hb]. destruct (ccond o c1 st) as [b st1]. simpl in *.
    destruct b.
    + destruct (IHc2 st1) as [Hc Hd]. split; [congruence|].
      apply in_flat_map. exists true. split; [exact Hb|]. rewrite <- Ha. exact Hd.
    + simpl. split; [exact Ha|]. apply in_flat_map. exists false. split; [exact Hb|]. simpl. auto.
  - destruct (IHc1 st) as [Ha Hb]. destruct (ccond o c1 st) as [b st1]. simpl in *.
    destruct b.
    + simpl. split; [exact Ha|]. apply in_flat_map. exists true. split; [exact Hb|]. simpl. auto.
    + destruct (IHc2 st1) as [Hc Hd]. split; [congruence|].
      apply in_flat_map. exists false. split; [exact Hb|]. rewrite <- Ha. exact Hd.
Qed.

Lemma c_begin_sound v st : In (abs (c_begin o v st)) (a_begin v (abs st)).
Proof.
  unfold c_begin, a_begin. change (a_ph (abs st)) with (mon (c_tr st)).
  destruct (is_p0 (mon (c_tr st))); simpl.
  - destruct (bool_of (o (c_n st))); simpl; auto.
  - auto.
Qed.

Lemma c_exec_sound b st : In (abs (c_exec sticky o b st)) (a_exec sticky b (abs st)).
Proof.
  unfold c_exec, a_exec. change (a_ph (abs st)) with (mon (c_tr st)).
  change (a_flt (abs st)) with (faulted (c_tr st)).
  destruct (is_open (mon (c_tr st))); simpl.
  - rewrite abs_ckinc, abs_cset, abs_emit, aemit_ev_exec.
    match goal with |- In (aset (bind b ?x) _) _ =>
      apply (in_map (fun y => aset (bind b y) (aemit (ev_exec y 0) (abs st))) _ x) end.
    destruct (sticky && faulted (c_tr st)); simpl; auto.
    destruct (outcome_of (o (c_n st))); simpl; auto.
  - auto.
Qed.

Lemma c_pure_sound b st : In (abs (c_pure o b st)) (a_pure b (abs st)).
Proof.
  unfold c_pure, a_pure. simpl. destruct (bool_of (o (c_n st))); simpl; auto.
Qed.

Lemma c_commit_sound b st : In (abs (c_commit sticky o b st)) (a_commit sticky b (abs st)).
Proof.
  unfold c_commit, a_commit. change (a_ph (abs st)) with (mon (c_tr st)).
  change (a_flt (abs st)) with (faulted (c_tr st)).
  destruct (is_open (mon (c_tr st))); simpl.
  - destruct (sticky && faulted (c_tr st)); simpl.
    + auto.
    + destruct (bool_of (o (c_n st))); simpl; auto.
  - auto.
Qed.

Lemma c_rollback_sound st : abs (c_rollback st) = a_rollback (abs st).
Proof.
  unfold c_rollback, a_rollback. change (a_ph (abs st)) with (mon (c_tr st)).
  destruct (mon (c_tr st)); reflexivity.
Qed.

Lemma c_cancel_sound st : In (abs (c_cancel ctxrb o st)) (a_cancel ctxrb (abs st)).
Proof.
  unfold c_cancel, a_cancel. simpl. destruct (bool_of (o (c_n st))); simpl; auto.
Qed.

(* ---------- loops ---------- *)
Lemma agrow_incl F : forall n heads frontier, incl heads (agrow F n heads frontier).
Proof.
  induction n; intros heads frontier; simpl.
  - apply incl_refl.
  - destruct (nodup apoint_eq_dec
                (filter (fun x => negb (memp x heads)) (flat_map (fun h => normals (F h)) frontier))) eqn:E.
    + apply incl_refl.
    + intros x Hx. apply IHn. apply in_or_app. left. exact Hx.
Qed.

Lemma in_normals q sg l : In (q, sg) l -> (sg = SgNormal \/ sg = SgCont) -> In q (normals l).
Proof.
  intros H Hs. unfold normals. apply in_flat_map. exists (q, sg). split; [exact H|].
  destruct Hs; subst; simpl; auto.
Qed.

Lemma in_exits q sg sg' l : In (q, sg) l ->
  (sg = SgBreak /\ sg' = SgNormal) \/ (exists x, sg = SgRet x /\ sg' = SgRet x) \/ (sg = SgStuck /\ sg' = SgStuck) ->
  In (q, sg') (exits l).
Proof.
  intros H Hs. unfold exits. apply in_flat_map. exists (q, sg). split; [exact H|].
  destruct Hs as [[-> ->]|[[x [-> ->]]|[-> ->]]]; simpl; auto.
Qed.

Definition loop_out (F : apoint -> list (apoint * sig)) (heads : list apoint) :=
  map (fun h => (h, SgNormal)) heads ++ flat_map (fun h => exits (F h)) heads.

Lemma citer_sound (f : cstate -> cstate * sig) (F : apoint -> list (apoint * sig)) heads :
  (forall st, In (abs (fst (f st)), snd (f st)) (F (abs st)) \/ stuck_in (F (abs st))) ->
  (forall h, In h heads -> forall x, In x (normals (F h)) -> In x heads) ->
  forall n st, In (abs st) heads ->
    In (abs (fst (citer f n st)), snd (citer f n st)) (loop_out F heads) \/ stuck_in (loop_out F heads).
Proof.
  intros Hf Hclosed. induction n; intros st Hin; simpl.
  - left. unfold loop_out. apply in_or_app. left.
    apply (in_map (fun h => (h, SgNormal))). exact Hin.
  - destruct (Hf st) as [H|[q Hq]].
    + destruct (f st) as [st1 sg]. simpl in H.
      destruct sg.
      * apply IHn. apply (Hclosed _ Hin). eapply in_normals; eauto.
      * simpl. left. unfold loop_out. apply in_or_app. right. apply in_flat_map.
        exists (abs st). split; [exact Hin|]. eapply in_exits; [exact H|]. left. auto.
      * apply IHn. apply (Hclosed _ Hin). eapply in_normals; eauto.
      * simpl. left. unfold loop_out. apply in_or_app. right. apply in_flat_map.
        exists (abs st). split; [exact Hin|]. eapply in_exits; [exact H|]. right. left. eauto.
      * simpl. left. unfold loop_out. apply in_or_app. right. apply in_flat_map.
        exists (abs st). split; [exact Hin|]. eapply in_exits; [exact H|]. right. right. auto.
    + right. exists q. unfold loop_out. apply in_or_app. right. apply in_flat_map.
      exists (abs st). split; [exact Hin|]. eapply in_exits; [exact Hq|]. right. right. auto.
Qed.

Lemma closedb_spec F heads : closedb F heads = true ->
  forall h, In h heads -> forall x, In x (normals (F h)) -> In x heads.
Proof.
  unfold closedb. intros H h Hh x Hx.
  rewrite forallb_forall in H. specialize (H h Hh). rewrite forallb_forall in H.
  apply memp_in. apply H. exact Hx.
Qed.

(* ---------- the main simulation ---------- *)
Lemma aexec_sound : forall s nm st,
  In (abs (fst (CE nm s st)), snd (CE nm s st)) (AE nm s (abs st)) \/ stuck_in (AE nm s (abs st)).
Proof.
  induction s as [ | s1 IHs1 s2 IHs2 | v | b | b | b | | | v e | locals cnm body IHbody b | c s1 IHs1 s2 IHs2 | body IHbody | | | e | d | src ]; intros fnm st.
  - (* SSkip *) left. simpl. auto.
  - (* SSeq *)
    simpl. destruct (IHs1 fnm st) as [H|[q Hq]].
    + destruct (CE fnm s1 st) as [st1 sg] eqn:E1. simpl in H.
      assert (Hkeep : sg <> SgNormal ->
                In (abs st1, sg) (dedup (flat_map (fun r => match snd r with SgNormal => AE fnm s2 (fst r) | _ => [r] end) (AE fnm s1 (abs st))))).
      { intros Hn. apply in_dedup. apply in_flat_map. exists (abs st1, sg). split; [exact H|].
        destruct sg; simpl; auto. congruence. }
      destruct sg; try (left; apply Hkeep; congruence).
      destruct (IHs2 fnm st1) as [H2|[q Hq]].
      * left. apply in_dedup. apply in_flat_map. exists (abs st1, SgNormal). split; [exact H|]. exact H2.
      * right. exists q. apply in_dedup. apply in_flat_map. exists (abs st1, SgNormal). split; [exact H|]. exact Hq.
    + right. exists q. apply in_dedup. apply in_flat_map. exists (q, SgStuck). split; [exact Hq|]. simpl. auto.
  - (* SBegin *) left. cbn [cexec aexec fst snd]. apply (in_map (fun q => (q, SgNormal))). apply c_begin_sound.
  - (* SExec *) left. cbn [cexec aexec fst snd]. apply (in_map (fun q => (q, SgNormal))). apply c_exec_sound.
  - (* SPure *) left. cbn [cexec aexec fst snd]. apply (in_map (fun q => (q, SgNormal))). apply c_pure_sound.
  - (* SCommit *) left. cbn [cexec aexec fst snd]. apply (in_map (fun q => (q, SgNormal))). apply c_commit_sound.
  - (* SRollback *) left. simpl. rewrite c_rollback_sound. auto.
  - (* SCancel *) left. cbn [cexec aexec fst snd]. apply (in_map (fun q => (q, SgNormal))). apply c_cancel_sound.
  - (* SSet *)
    left. simpl. pose proof (ceval_sound e st) as H. destruct (ceval o e st) as [x st1]. simpl in *.
    rewrite abs_cset.
    apply (in_map (fun r => (aset (upd v (fst r)) (snd r), SgNormal)) _ (x, abs st1)). exact H.
  - (* SCall *)
    simpl. destruct (IHbody cnm st) as [H|[q Hq]].
    + left. destruct (CE cnm body st) as [st1 sg]. simpl in H. apply in_dedup.
      match goal with |- In _ (map ?h _) => pose proof (in_map h _ _ H) as Hm end.
      destruct sg; simpl in *; exact Hm.
    + right. exists q. apply in_dedup.
      match goal with |- In _ (map ?h _) => pose proof (in_map h _ _ Hq) as Hm end.
      simpl in Hm. exact Hm.
  - (* SIf *)
    simpl. destruct (ccond_sound c st) as [Ha Hb]. destruct (ccond o c st) as [bv st1]. simpl in *.
    destruct bv.
    + destruct (IHs1 fnm st1) as [H|[q Hq]].
      * left. apply in_dedup. apply in_flat_map. exists true. split; [exact Hb|]. rewrite <- Ha. exact H.
      * right. exists q. apply in_dedup. apply in_flat_map. exists true. split; [exact Hb|]. rewrite <- Ha. exact Hq.
    + destruct (IHs2 fnm st1) as [H|[q Hq]].
      * left. apply in_dedup. apply in_flat_map. exists false. split; [exact Hb|]. rewrite <- Ha. exact H.
      * right. exists q. apply in_dedup. apply in_flat_map. exists false. split; [exact Hb|]. rewrite <- Ha. exact Hq.
  - (* SLoop *)
    simpl. unfold aloop.
    set (F := AE fnm body). set (heads := agrow F fuel [abs st] [abs st]).
    destruct (closedb F heads) eqn:Hc.
    + pose proof (closedb_spec _ _ Hc) as Hclosed.
      assert (Hin : In (abs (snd (ask o 0 st))) heads).
      { rewrite abs_ask. apply (agrow_incl F fuel [abs st] [abs st]). simpl. auto. }
      destruct (citer_sound (CE fnm body) F heads (IHbody fnm) Hclosed (fst (ask o 0 st)) _ Hin) as [H|[q Hq]].
      * left. apply in_dedup. exact H.
      * right. exists q. apply in_dedup. exact Hq.
    + right. exists (abs st). apply in_dedup. simpl. auto.
  - (* SBreak *) left. simpl. auto.
  - (* SContinue *) left. simpl. auto.
  - (* SReturn *)
    left. simpl. pose proof (ceval_sound e st) as H. destruct (ceval o e st) as [x st1]. simpl in *.
    rewrite abs_cset.
    apply (in_map (fun r => (aset (bind fnm (fst r)) (snd r), SgRet (fst r))) _ (x, abs st1)). exact H.
  - (* SDefer *) left. simpl. auto.
  - (* SUnknown *) left. simpl. auto.
Qed.

Lemma existsb_stuck l : stuck_in l -> existsb is_stuck l = true.
Proof. intros [q Hq]. apply existsb_exists. exists (q, SgStuck). split; [exact Hq|reflexivity]. Qed.

Lemma crun_defers_sound defers : forall ds st pts pts',
  In (abs st) pts ->
  arun_defers ctxrb sticky fuel defers ds pts = Some pts' ->
  In (abs (crun_defers ctxrb sticky o defers ds st)) pts'.
Proof.
  induction ds; intros st pts pts' Hin Hrun; simpl in *.
  - inversion Hrun; subst. exact Hin.
  - unfold astep_defer in Hrun.
    set (s := nth a defers SSkip) in *.
    destruct (existsb is_stuck (flat_map (AE None s) pts)) eqn:Hst; [discriminate|].
    eapply IHds; [|exact Hrun].
    apply nodup_In. destruct (aexec_sound s None st) as [H|Hs].
    + apply (in_map fst) in H. simpl in H. apply in_map_iff.
      exists (abs (fst (CE None s st)), snd (CE None s st)). split; [reflexivity|].
      apply in_flat_map. exists (abs st). split; [exact Hin|].
      destruct (aexec_sound s None st) as [H'|Hs']; [exact H'|].
      exfalso. assert (existsb is_stuck (flat_map (AE None s) pts) = true).
      { apply existsb_stuck. destruct Hs' as [q Hq]. exists q. apply in_flat_map. exists (abs st). auto. }
      congruence.
    + exfalso. assert (existsb is_stuck (flat_map (AE None s) pts) = true).
      { apply existsb_stuck. destruct Hs as [q Hq]. exists q. apply in_flat_map. exists (abs st). auto. }
      congruence.
Qed.
End Sound.

(* ---------- the generic theorem ---------- *)
Theorem tx_atomic_wf : forall p, wf_tx p = true -> forall o, atomic_run (exec p o) = true.
Proof.
  intros p Hwf o. unfold wf_tx in Hwf. rewrite forallb_forall in Hwf.
  unfold exec.
  pose proof (aexec_sound (p_ctxrb p) (p_sticky p) loop_fuel o (p_body p) (p_named p) cinit) as Hs.
  destruct (cexec (p_ctxrb p) (p_sticky p) o (p_named p) (p_body p) cinit) as [st1 sg] eqn:E.
  simpl in Hs. change (abs cinit) with ainit in Hs.
  destruct Hs as [H|[q Hq]].
  - specialize (Hwf _ H). unfold check_result in Hwf. simpl in Hwf.
    destruct sg; try discriminate.
    destruct (arun_defers (p_ctxrb p) (p_sticky p) loop_fuel (p_defers p) (c_defers st1) [anodefers (abs st1)]) as [pts|] eqn:Hr;
      [|discriminate].
    rewrite forallb_forall in Hwf.
    assert (Hin : In (abs (cnodefers st1)) [anodefers (abs st1)]) by (simpl; auto).
    pose proof (crun_defers_sound (p_ctxrb p) (p_sticky p) loop_fuel o (p_defers p) (c_defers st1) (cnodefers st1) _ _ Hin Hr) as Hfin.
    specialize (Hwf _ Hfin).
    unfold atomic_run. simpl. rewrite rev_involutive. exact Hwf.
  - specialize (Hwf _ Hq). discriminate.
Qed.

Theorem tx_atomic : forall p, wf_prog p = true -> forall o, atomic_run (exec p o) = true.
Proof.
  intros p H o. unfold wf_prog in H. apply andb_true_iff in H. destruct H as [_ H].
  exact (tx_atomic_wf p H o).
Qed.

(* ---------- what [atomic_run] says about the driver-level trace ---------- *)
Definition is_begin (e : event) := match e with EvBegin => true | _ => false end.
Definition is_commit (e : event) := match e with EvCommit => true | _ => false end.
(* the transaction ends without taking effect: explicit ROLLBACK, a COMMIT that
   failed, or the context cancel that database/sql turns into a rollback *)
Definition is_abort (e : event) :=
  match e with EvRollback | EvCommitFail | EvCancel true => true | _ => false end.
Definition is_term (e : event) := is_commit e || is_abort e.
Definition is_stmt (e : event) :=
  match e with EvExec _ | EvExecFail _ | EvExecCode _ => true | _ => false end.
(* events that reach the driver *)
Definition is_driver (e : event) :=
  match e with EvCancel false | EvCodeErr => false | _ => true end.
Definition cnt (f : event -> bool) (l : list event) : nat := List.length (filter f l).

(* invariant of the monitor, on newest-first traces *)
Definition mon_inv (l : list event) : Prop :=
  match mon l with
  | P0 => cnt is_begin l = 0 /\ cnt is_term l = 0 /\ cnt is_stmt l = 0
  | POpen => cnt is_begin l = 1 /\ cnt is_term l = 0
  | PCommitted => cnt is_begin l = 1 /\ cnt is_term l = 1 /\ cnt is_abort l = 0 /\
                  find is_driver l = Some EvCommit
  | PAborted => cnt is_begin l = 1 /\ cnt is_term l = 1 /\ cnt is_commit l = 0 /\ cnt is_abort l = 1
  | PBad => True
  end.

Lemma cnt_term_split l : cnt is_term l = cnt is_commit l + cnt is_abort l.
Proof.
  unfold cnt. induction l as [|e l IH]; simpl; auto.
  unfold is_term at 1. destruct e as [| | k | k | k | | | | [] | |]; simpl; lia.
Qed.

Lemma mon_inv_all : forall l, mon_inv l.
Proof.
  induction l as [|e l IH]; unfold mon_inv in *; simpl.
  - auto.
  - pose proof (cnt_term_split l) as Hs.
    destruct e as [| | k | k | k | | | | [] | |]; destruct (mon l); simpl in *; unfold cnt in *; simpl;
      intuition (try lia; try congruence).
Qed.

(* the statement of the property on a finished run (chronological trace [tr], result [x]) *)
Definition all_or_nothing (tr : list event) (x : errval) : Prop :=
  (* the transaction is closed exactly once, or was never begun: never left open, never two terminators *)
  ((cnt is_begin tr = 0 /\ cnt is_term tr = 0 /\ cnt is_stmt tr = 0) \/ (cnt is_begin tr = 1 /\ cnt is_term tr = 1)) /\
  (* a fault (failed Begin / statement / Commit): nothing is committed, the error is reported,
     and a begun transaction is rolled back *)
  (faulted tr = true -> cnt is_commit tr = 0 /\ x <> VNil /\ (cnt is_begin tr = 1 -> cnt is_abort tr = 1)) /\
  (* a successful Commit is the last thing the driver sees, nothing is rolled back, nil is returned *)
  (cnt is_commit tr = 1 -> x = VNil /\ cnt is_abort tr = 0 /\ find is_driver (rev tr) = Some EvCommit) /\
  (* a rollback is never silent *)
  (cnt is_abort tr = 1 -> x <> VNil) /\
  (* when nothing fails and the code raises no error of its own, a begun transaction is committed *)
  (faulted tr = false -> coded tr = false -> cnt is_begin tr = 1 -> cnt is_commit tr = 1 /\ x = VNil).

Lemma cnt_rev f l : cnt f (rev l) = cnt f l.
Proof.
  unfold cnt. induction l; simpl; auto.
  rewrite filter_app, app_length. simpl. destruct (f a); simpl; lia.
Qed.
Lemma existsb_rev (f : event -> bool) l : existsb f (rev l) = existsb f l.
Proof.
  induction l; simpl; auto. rewrite existsb_app. simpl. rewrite IHl. rewrite orb_false_r. apply orb_comm.
Qed.

Lemma atomic_run_meaning : forall r, atomic_run r = true ->
  exists x, r_res r = Some x /\ all_or_nothing (r_trace r) x.
Proof.
  intros r H. unfold atomic_run in H. destruct (r_res r) as [x|]; [|discriminate].
  exists x. split; [reflexivity|].
  set (l := rev (r_trace r)) in *.
  pose proof (mon_inv_all l) as Hi. unfold mon_inv in Hi.
  pose proof (cnt_term_split l) as Hsplit.
  unfold all_or_nothing.
  rewrite <- (cnt_rev is_begin (r_trace r)), <- (cnt_rev is_term (r_trace r)), <- (cnt_rev is_stmt (r_trace r)),
    <- (cnt_rev is_commit (r_trace r)), <- (cnt_rev is_abort (r_trace r)).
  unfold faulted, coded in *. rewrite <- (existsb_rev is_fault (r_trace r)), <- (existsb_rev is_code (r_trace r)).
  fold l. unfold final_ok in H.
  destruct (mon l); destruct x; destruct (existsb is_fault l); destruct (existsb is_code l); simpl in H;
    try discriminate; intuition (try lia; try congruence).
Qed.
