(* C16 (part f)  The content type an upload is stored under, the disposition it is later served
   with, and the cut-off of the garbage-collection loop.  Definitions only (lemmas:
   Sys/FilesTypeC16fProofs.v).

   (a) largeFileReceive, server/hdl_files.go:282-310: the type decision as a function of
       - [sniff]    = http.DetectContentType(buff), buff = the first 512 bytes of the part (zero padded),
       - [declared] = mime.ParseMediaType(header.Header.Get("Content-Type")) of the multipart part:
                      None when it returns an error, otherwise the media type it returns together
                      with mime.FormatMediaType(mediatype, params) (empty = FormatMediaType refused).
       The three stdlib functions are outside the model: their results are inputs.
   (b) largeFileServe, hdl_files.go:142-157: Content-Type = the stored type, Content-Disposition by
       Files.force_attachment of the stored type.
   (c) largeFileRunGarbageCollection, hdl_files.go:349-370: the tick period after jitter (rand.Intn
       panics when its argument is not positive: explicit None) and the cut-off handed to
       store.Files.DeleteUnused by one tick, as a function of (now, period); one tick on the store
       slice of Sys/Files.v.  Times are nanoseconds (time.Duration). *)
From Coq Require Import NArith ZArith List Bool.
From Tinode Require Import Sys.Files.
Import ListNotations.

Fixpoint bytes_eqb_c16f (a b : list N) : bool :=
  match a, b with
  | [], [] => true
  | x :: a', y :: b' => (x =? y)%N && bytes_eqb_c16f a' b'
  | _, _ => false
  end.

(* "application/octet-stream" *)
Definition s_octet_c16f : list N :=
  [97; 112; 112; 108; 105; 99; 97; 116; 105; 111; 110; 47; 111; 99; 116; 101; 116; 45; 115; 116; 114; 101; 97; 109]%N.
Definition s_audio_c16f : list N := [97; 117; 100; 105; 111; 47]%N.
Definition s_font_c16f : list N := [102; 111; 110; 116; 47]%N.
Definition s_image_c16f : list N := [105; 109; 97; 103; 101; 47]%N.
Definition s_video_c16f : list N := [118; 105; 100; 101; 111; 47]%N.

(* var allowedMimeTypes = []string{"application/", "audio/", "font/", "image/", "text/", "video/"} *)
Definition allowed_mime_types_c16f : list (list N) :=
  [s_application; s_audio_c16f; s_font_c16f; s_image_c16f; s_text; s_video_c16f].

(* result of mime.ParseMediaType (err == nil) and of mime.FormatMediaType on its results *)
Record declared_c16f := { d_media : list N; d_formatted : list N }.

(* for _, allowed := range allowedMimeTypes {
     if strings.HasPrefix(userContentType, allowed) {
       if userContentType = mime.FormatMediaType(userContentType, params); userContentType != "" { mimeType = userContentType }
       break } } *)
Fixpoint allowed_loop_c16f (allowed : list (list N)) (d : declared_c16f) (mime_type : list N) : list N :=
  match allowed with
  | [] => mime_type
  | a :: rest =>
    if has_prefix a (d_media d)
    then match d_formatted d with
         | [] => mime_type
         | _ :: _ => d_formatted d
         end
    else allowed_loop_c16f rest d mime_type
  end.

(* mimeType := http.DetectContentType(buff)
   if mimeType == "application/octet-stream" { if ..., err := mime.ParseMediaType(...); err == nil { loop } } *)
Definition stored_type_c16f (sniff : list N) (declared : option declared_c16f) : list N :=
  if bytes_eqb_c16f sniff s_octet_c16f
  then match declared with
       | Some d => allowed_loop_c16f allowed_mime_types_c16f d sniff
       | None => sniff
       end
  else sniff.

(* what a later download of that upload carries: (Content-Type, Content-Disposition: attachment?) *)
Definition served_c16f (asatt : bool) (sniff : list N) (declared : option declared_c16f) : list N * bool :=
  let m := stored_type_c16f sniff declared in (m, force_attachment asatt m).

(* the regression class: the declared type consulted for a wider class of sniffed types *)
Definition stored_type_wide_c16f (sniff : list N) (declared : option declared_c16f) : list N :=
  if has_prefix s_application sniff
  then match declared with
       | Some d => allowed_loop_c16f allowed_mime_types_c16f d sniff
       | None => sniff
       end
  else sniff.

(* ------------------------------------------------------------------ *)
(* (c) garbage-collection loop                                          *)

Definition hour_c16f : Z := 3600000000000%Z.

(* period = (period >> 1) + (period >> 2) + time.Duration(rand.Intn(int(period>>1)));
   r = the value drawn by rand.Intn (0 <= r < period>>1); Intn panics when period>>1 <= 0 *)
Definition gc_tick_period_c16f (period r : Z) : option Z :=
  if (Z.shiftr period 1 <=? 0)%Z then None
  else Some (Z.shiftr period 1 + Z.shiftr period 2 + r)%Z.

(* store.Files.DeleteUnused(time.Now().Add(-time.Hour), blockSize) *)
Definition gc_cutoff_c16f (now period : Z) : Z := (now - hour_c16f)%Z.

Definition gc_tick_c16f (s : state) (now period block : Z) : state :=
  step s (OGC (Some (gc_cutoff_c16f now period)) block).

(* the regression class: the cut-off derived from the loop's period *)
Definition gc_cutoff_by_period_c16f (now period : Z) : Z := (now - period)%Z.
