(* C07 proofs, part 1: the handlers of Sys/Topic.v in pieces, row/entry lookup through
   the store primitives and the cache updates, and the single-request writer laws. *)
From Coq Require Import ZArith NArith List Bool Lia.
From Tinode Require Import Base.Util Pure.Acs Sys.Topic Sys.TopicTac Sys.TopicFrame Sys.TopicMarks Sys.TopicAclC07.
Import ListNotations.
Open Scope Z_scope.

(* ---------- the decomposition is the model ---------- *)
Lemma tus_eq f s c n sid u want nb : this_user_sub f s c n sid u want nb = tus f s c n u want nb.
Proof. reflexivity. Qed.
Lemma aus_eq f s c n sid u t m : another_user_sub f s c n sid u t m = aus f s c n u t m.
Proof. unfold another_user_sub, aus. destruct (alookup u (c_users c)); reflexivity. Qed.

(* ---------- rows through the store primitives ---------- *)
Lemma neqb_refl u : N.eqb u u = true. Proof. apply N.eqb_refl. Qed.

Lemma find_sub_upd_sub u f l v :
  (forall r, s_user r = u -> s_user (f r) = u) ->
  find_sub v (upd_sub u f l) = if N.eqb v u then option_map f (find_sub v l) else find_sub v l.
Proof.
  intros Hf. unfold find_sub, upd_sub. induction l as [|r l IH]; cbn.
  - destruct (N.eqb v u); reflexivity.
  - destruct (N.eqb (s_user r) u) eqn:E.
    + apply N.eqb_eq in E. rewrite (Hf r E). rewrite E.
      destruct (N.eqb v u) eqn:E2.
      * apply N.eqb_eq in E2. subst v. rewrite !neqb_refl. reflexivity.
      * rewrite N.eqb_sym, E2. exact IH.
    + destruct (N.eqb (s_user r) v) eqn:E3.
      * apply N.eqb_eq in E3. subst v. rewrite E. reflexivity.
      * exact IH.
Qed.

Lemma find_sub_map_all f l v :
  (forall r, s_user (f r) = s_user r) ->
  find_sub v (map f l) = option_map f (find_sub v l).
Proof.
  intros Hf. unfold find_sub. induction l as [|r l IH]; cbn; [reflexivity|].
  rewrite Hf. destruct (N.eqb (s_user r) v); [reflexivity|exact IH].
Qed.

Lemma find_sub_app_new v row l :
  find_sub (s_user row) l = None ->
  find_sub v (l ++ [row]) = if N.eqb v (s_user row) then Some row else find_sub v l.
Proof.
  unfold find_sub. induction l as [|r l IH]; cbn.
  - intros _. rewrite N.eqb_sym. reflexivity.
  - destruct (N.eqb (s_user r) (s_user row)) eqn:E; [discriminate|]. intros H.
    destruct (N.eqb (s_user r) v) eqn:E2.
    + apply N.eqb_eq in E2. subst v. rewrite E. reflexivity.
    + apply IH. exact H.
Qed.

Lemma find_sub_user u l r : find_sub u l = Some r -> s_user r = u.
Proof. unfold find_sub. intros H. apply find_some in H. apply N.eqb_eq. apply H. Qed.
Lemma find_sub_in u l r : find_sub u l = Some r -> In r l.
Proof. unfold find_sub. intros H. apply find_some in H. apply H. Qed.

(* createSubscription *)
Lemma find_sub_create s u w g v :
  find_sub v (subs (ad_sub_create s u w g)) =
  if N.eqb v u then Some (mkSub u w g 0 0 0 false) else find_sub v (subs s).
Proof.
  unfold ad_sub_create.
  assert (forall s', subs (if is_owner (N.land w g) then st_owner u s' else s') = subs s') as Ho
    by (intros; destruct (is_owner _); reflexivity).
  rewrite Ho. destruct (find_sub u (subs s)) eqn:E; cbn [subs st_subs].
  - rewrite find_sub_upd_sub by (intros; reflexivity).
    destruct (N.eqb v u) eqn:E2; [|reflexivity]. apply N.eqb_eq in E2. subst v. rewrite E. reflexivity.
  - rewrite find_sub_app_new by exact E. reflexivity.
Qed.

(* SubsUpdate *)
Lemma find_sub_update s u up v :
  find_sub v (subs (ad_subs_update s u up)) =
  if (u =? 0)%N || N.eqb v u then option_map (apply_upd up) (find_sub v (subs s)) else find_sub v (subs s).
Proof.
  unfold ad_subs_update. destruct (u =? 0)%N; cbn [subs st_subs orb].
  - apply find_sub_map_all. reflexivity.
  - apply find_sub_upd_sub. intros; assumption.
Qed.

(* SubsDelete *)
Lemma find_sub_delete s u s' v :
  ad_subs_delete s u = Some s' ->
  find_sub v (subs s') =
  if N.eqb v u then option_map (fun r => mkSub (s_user r) (s_want r) (s_given r) (s_read r) (s_recv r) (s_delid r) true)
                                (find_sub v (subs s))
  else find_sub v (subs s).
Proof.
  unfold ad_subs_delete. destruct (ad_sub_get s u false); intros H; inv H.
  cbn [subs st_subs st_dellog]. apply find_sub_upd_sub. intros; assumption.
Qed.

Lemma sgiven_create s u w g v : sgiven (ad_sub_create s u w g) v = if N.eqb v u then Some g else sgiven s v.
Proof. unfold sgiven. rewrite find_sub_create. destruct (N.eqb v u); reflexivity. Qed.
Lemma swant_create s u w g v : swant (ad_sub_create s u w g) v = if N.eqb v u then Some w else swant s v.
Proof. unfold swant. rewrite find_sub_create. destruct (N.eqb v u); reflexivity. Qed.

Definition oset {A} (o : option A) (x : A) : A := match o with Some y => y | None => x end.
Lemma sgiven_update s u up v :
  sgiven (ad_subs_update s u up) v =
  if (u =? 0)%N || N.eqb v u then option_map (oset (u_given up)) (sgiven s v) else sgiven s v.
Proof.
  unfold sgiven. rewrite find_sub_update. destruct ((u =? 0)%N || N.eqb v u); [|reflexivity].
  destruct (find_sub v (subs s)); reflexivity.
Qed.
Lemma swant_update s u up v :
  swant (ad_subs_update s u up) v =
  if (u =? 0)%N || N.eqb v u then option_map (oset (u_want up)) (swant s v) else swant s v.
Proof.
  unfold swant. rewrite find_sub_update. destruct ((u =? 0)%N || N.eqb v u); [|reflexivity].
  destruct (find_sub v (subs s)); reflexivity.
Qed.
Lemma sgiven_update_none s u up v : u_given up = None -> sgiven (ad_subs_update s u up) v = sgiven s v.
Proof.
  intros H. rewrite sgiven_update, H. destruct (_ || _); [|reflexivity]. destruct (sgiven s v); reflexivity.
Qed.
Lemma swant_update_none s u up v : u_want up = None -> swant (ad_subs_update s u up) v = swant s v.
Proof.
  intros H. rewrite swant_update, H. destruct (_ || _); [|reflexivity]. destruct (swant s v); reflexivity.
Qed.
Lemma sgiven_delete s u s' v : ad_subs_delete s u = Some s' -> sgiven s' v = sgiven s v.
Proof.
  intros H. unfold sgiven. rewrite (find_sub_delete _ _ _ v H).
  destruct (N.eqb v u); [|reflexivity]. destruct (find_sub v (subs s)); reflexivity.
Qed.
Lemma swant_delete s u s' v : ad_subs_delete s u = Some s' -> swant s' v = swant s v.
Proof.
  intros H. unfold swant. rewrite (find_sub_delete _ _ _ v H).
  destruct (N.eqb v u); [|reflexivity]. destruct (find_sub v (subs s)); reflexivity.
Qed.
Lemma sgiven_owner s u v : sgiven (st_owner u s) v = sgiven s v. Proof. reflexivity. Qed.
Lemma swant_owner s u v : swant (st_owner u s) v = swant s v. Proof. reflexivity. Qed.

(* ---------- cache entries ---------- *)
Lemma alookup_aremove_eq {A} (k k' : N) (l : list (N * A)) :
  alookup k' (aremove k l) = if N.eqb k' k then None else alookup k' l.
Proof.
  induction l as [|[k0 v0] l IH]; cbn.
  - destruct (N.eqb k' k); reflexivity.
  - destruct (N.eqb k k0) eqn:E.
    + rewrite IH. apply N.eqb_eq in E. subst k0. destruct (N.eqb k' k); reflexivity.
    + cbn. destruct (N.eqb k' k0) eqn:E2; [|exact IH].
      apply N.eqb_eq in E2. subst k0. rewrite N.eqb_sym, E. reflexivity.
Qed.

Lemma member_aset c u p v : member (c_set_users (aset u p) c) v = N.eqb v u || member c v.
Proof. unfold member. cbn [c_users c_set_users]. rewrite alookup_aset. destruct (N.eqb v u); reflexivity. Qed.

(* evictUser: entries keep their modes; with unsub the user's entry goes *)
Lemma evict_lookup c u b k c' o v : evict_user c u b k = (c', o) ->
  alookup v (c_users c') =
  if N.eqb v u then (if b then None else option_map (p_set_online 0) (alookup v (c_users c)))
  else alookup v (c_users c).
Proof.
  unfold evict_user. intros H. inv H. destruct b.
  - cbn [c_users c_set_users c_set_sess]. rewrite alookup_aremove_eq. reflexivity.
  - cbn [c_users c_set_sess]. destruct (alookup u (c_users c)) eqn:E; cbn [c_users c_set_users c_set_sess].
    + rewrite alookup_aset. destruct (N.eqb v u) eqn:E2; [|reflexivity].
      apply N.eqb_eq in E2. subst v. rewrite E. reflexivity.
    + destruct (N.eqb v u) eqn:E2; [|reflexivity]. apply N.eqb_eq in E2. subst v. rewrite E. reflexivity.
Qed.
Lemma evict_owner c u b k c' o : evict_user c u b k = (c', o) -> c_owner c' = c_owner c /\ c_auth c' = c_auth c.
Proof. unfold evict_user. intros H. inv H. destruct b; [split; reflexivity|]. destruct (alookup u _); split; reflexivity. Qed.
Lemma evict_sess c u b k c' o : evict_user c u b k = (c', o) ->
  c_sess c' = filter (fun e => negb (N.eqb (fst (snd e)) u)) (c_sess c).
Proof. unfold evict_user. intros H. inv H. destruct b; [reflexivity|]. destruct (alookup u _); reflexivity. Qed.
Lemma evict_cgiven c u b k c' o v : evict_user c u b k = (c', o) ->
  cgiven c' v = if N.eqb v u && b then None else cgiven c v.
Proof.
  intros H. unfold cgiven. rewrite (evict_lookup _ _ _ _ _ _ v H).
  destruct (N.eqb v u), b; cbn; try reflexivity. destruct (alookup v (c_users c)); reflexivity.
Qed.
Lemma evict_cwant c u b k c' o v : evict_user c u b k = (c', o) ->
  cwant c' v = if N.eqb v u && b then None else cwant c v.
Proof.
  intros H. unfold cwant. rewrite (evict_lookup _ _ _ _ _ _ v H).
  destruct (N.eqb v u), b; cbn; try reflexivity. destruct (alookup v (c_users c)); reflexivity.
Qed.

(* ---------- thisUserSub: what the sanity checks allow ---------- *)
Definition given_step (oldg mw g1 : N) : Prop :=
  g1 = oldg
  \/ (is_owner oldg = true /\ is_owner mw = true /\ g1 = N.lor oldg mw)
  \/ (is_owner oldg = false /\ is_admin oldg = true /\ is_owner mw = false /\ g1 = N.lor oldg (N.ldiff mw mD)).

Lemma tus_chk_spec c u mw oldw oldg mw1 g1 oc :
  tus_chk c u mw oldw oldg = Some (mw1, g1, oc) ->
  mw1 = mw /\ given_step oldg mw g1 /\
  (oc = true -> is_owner oldg = true /\ is_owner oldw = false /\ is_owner mw = true) /\
  (c_owner c = u -> (mw =? ModeUnset)%N = false -> is_owner mw = true /\ is_joiner mw = true).
Proof.
  unfold tus_chk, given_step. intros H.
  destruct (mw =? ModeUnset)%N eqn:EU.
  { injection H as E1 E2 E3. subst mw1 g1 oc. repeat split; auto; discriminate. }
  destruct (N.eqb (c_owner c) u && (negb (is_owner mw) || negb (is_joiner mw))) eqn:EO; [discriminate|].
  assert (c_owner c = u -> false = false -> is_owner mw = true /\ is_joiner mw = true) as HO.
  { intros E _. subst u. rewrite N.eqb_refl in EO. cbn in EO.
    destruct (is_owner mw), (is_joiner mw); cbn in EO; try discriminate. split; reflexivity. }
  destruct (is_owner oldg) eqn:EG.
  - injection H as E1 E2 E3. subst mw1 g1 oc. split; [reflexivity|]. split; [|split; [|exact HO]].
    + destruct (is_owner mw) eqn:EM; cbn; [|left; reflexivity].
      destruct (better_equal oldg mw); cbn; [left; reflexivity|right; left; auto].
    + intros Hoc. apply andb_prop in Hoc. destruct Hoc as [A B]. apply negb_true_iff in B. auto.
  - destruct (is_owner mw) eqn:EM; [discriminate|].
    destruct (is_admin oldg && is_admin mw) eqn:EA; injection H as E1 E2 E3; subst mw1 g1 oc.
    + split; [reflexivity|]. split; [|split; [discriminate|exact HO]].
      apply andb_prop in EA. destruct EA as [A _].
      destruct (better_equal oldg (N.ldiff mw mD)); cbn; [left; reflexivity|right; right; auto].
    + split; [reflexivity|]. split; [left; reflexivity|]. split; [discriminate|exact HO].
Qed.

(* the cache part of the ownership bookkeeping *)
Definition owner_sane (c : cache) : Prop :=
  c_owner c <> 0%N /\ exists p, alookup (c_owner c) (c_users c) = Some p /\ is_owner (pud_mode p) = true.

Lemma is_owner_land a b : is_owner (N.land a b) = true -> is_owner a = true /\ is_owner b = true.
Proof.
  unfold is_owner, has. intros H. apply negb_true_iff in H. apply N.eqb_neq in H.
  split; apply negb_true_iff; apply N.eqb_neq; intros E; apply H.
  - rewrite <- N.land_assoc, (N.land_comm b), N.land_assoc, E. apply N.land_0_l.
  - rewrite <- N.land_assoc, E. apply N.land_0_r.
Qed.

(* the four writer laws for a request of [a] about himself, from (s, c) to (s', c') *)
Definition own_laws (c : cache) (s : store) (a : N) (s' : store) (c' : cache) : Prop :=
  (forall v, sgiven s' v = sgiven s v \/ exists g', sgiven s' v = Some g' /\ own_given_just c s a v g') /\
  (forall v, swant s' v = swant s v \/ exists w', swant s' v = Some w' /\ own_want_just c a v w') /\
  (forall v g', cgiven c' v = Some g' -> cgiven c v = Some g' \/ own_given_just c s a v g') /\
  (forall v w', cwant c' v = Some w' -> cwant c v = Some w' \/ own_want_just c a v w').

Lemma own_laws_refl c s a : own_laws c s a s c.
Proof. repeat split; auto. Qed.

Ltac eqb_cases v u :=
  let E := fresh "E" in destruct (N.eqb v u) eqn:E; [apply N.eqb_eq in E; subst|apply N.eqb_neq in E].

Lemma tus_new_laws f s c n u mw nb :
  alookup u (c_users c) = None ->
  own_laws c s u (h_st (fst (tus_new f s c n u mw nb))) (h_ca (fst (tus_new f s c n u mw nb))).
Proof.
  intros Hnone. unfold tus_new.
  assert (member c u = false) as Hm by (unfold member; rewrite Hnone; reflexivity).
  set (prev := ad_sub_get s u true).
  set (given := if ((match prev with Some r => s_given r | None => ModeUnset end) =? ModeUnset)%N then c_auth c
                else match prev with Some r => s_given r | None => ModeUnset end).
  assert (own_given_just c s u u given) as HG.
  { left. split; [reflexivity|]. split; [exact Hm|]. subst given.
    destruct (_ =? ModeUnset)%N eqn:EU; [left; reflexivity|]. right.
    subst prev. unfold ad_sub_get in *. destruct (find_sub u (subs s)) eqn:E.
    - rewrite andb_false_r. exists s0. split; reflexivity.
    - discriminate EU. }
  set (wantm := if (mw =? ModeUnset)%N then c_auth c else N.ldiff mw mO).
  destruct (max_subs <=? _); [apply own_laws_refl|].
  destruct (call f n) as [ok1 n1]. destruct (negb ok1); [apply own_laws_refl|].
  destruct (negb (is_joiner given)); [apply own_laws_refl|].
  set (nc := match prev with Some r => s_deleted r | None => true end).
  destruct (if nc then call f n1 else (true, n1)) as [ok2 n2]. destruct (negb ok2); [apply own_laws_refl|].
  set (s2 := if nc then ad_sub_create s u wantm given else s).
  set (c2 := c_set_users (aset u (mkPud wantm given 0 0 0 0)) c).
  assert (own_laws c s u s2 c2) as L.
  { repeat split.
    - intros v. subst s2. destruct nc; [|left; reflexivity]. rewrite sgiven_create.
      eqb_cases v u; [right; eauto|left; reflexivity].
    - intros v. subst s2. destruct nc; [|left; reflexivity]. rewrite swant_create.
      eqb_cases v u; [right; eexists; split; [reflexivity|left; reflexivity]|left; reflexivity].
    - intros v g'. subst c2. unfold cgiven. cbn [c_users c_set_users]. rewrite alookup_aset.
      eqb_cases v u; cbn; [intros H; inv H; right; exact HG|auto].
    - intros v w'. subst c2. unfold cwant. cbn [c_users c_set_users]. rewrite alookup_aset.
      eqb_cases v u; cbn; [intros H; right; left; reflexivity|auto]. }
  destruct (negb (is_joiner wantm)); [|exact L].
  destruct (evict_user c2 u false 0) as [c3 o3] eqn:EV. cbn [fst h_st h_ca].
  destruct L as [L1 [L2 [L3 L4]]]. repeat split; auto.
  - intros v g'. rewrite (evict_cgiven _ _ _ _ _ _ v EV). rewrite andb_false_r. apply L3.
  - intros v w'. rewrite (evict_cwant _ _ _ _ _ _ v EV). rewrite andb_false_r. apply L4.
Qed.

Lemma tus_finish_res u w1 g1 oldw oldg nb s3 c3 n3 :
  let r := fst (tus_finish u w1 g1 oldw oldg nb s3 c3 n3) in
  h_st r = s3 /\
  (forall v, cgiven (h_ca r) v = if N.eqb v u then Some g1 else cgiven c3 v) /\
  (forall v, cwant (h_ca r) v = if N.eqb v u then Some w1 else cwant c3 v) /\
  c_owner (h_ca r) = c_owner c3.
Proof.
  unfold tus_finish.
  set (c4 := c_set_users (aset u (p_set_modes w1 g1 (get_pud c3 u))) c3).
  assert (forall v, cgiven c4 v = if N.eqb v u then Some g1 else cgiven c3 v) as G4.
  { intros v. unfold cgiven. subst c4. cbn [c_users c_set_users]. rewrite alookup_aset. destruct (N.eqb v u); reflexivity. }
  assert (forall v, cwant c4 v = if N.eqb v u then Some w1 else cwant c3 v) as W4.
  { intros v. unfold cwant. subst c4. cbn [c_users c_set_users]. rewrite alookup_aset. destruct (N.eqb v u); reflexivity. }
  destruct (negb (is_joiner w1)).
  - destruct (evict_user c4 u false 0) as [c5 o5] eqn:EV. cbn [fst h_st h_ca].
    split; [reflexivity|]. split; [|split].
    + intros v. rewrite (evict_cgiven _ _ _ _ _ _ v EV), andb_false_r. apply G4.
    + intros v. rewrite (evict_cwant _ _ _ _ _ _ v EV), andb_false_r. apply W4.
    + apply evict_owner in EV. destruct EV as [EV _]. rewrite EV. reflexivity.
  - destruct (negb (is_joiner g1)); cbn [fst h_st h_ca]; repeat split; auto.
Qed.

Lemma tus_exist_laws f s c n u mw p0 nb :
  alookup u (c_users c) = Some p0 -> u <> 0%N -> owner_sane c ->
  own_laws c s u (h_st (fst (tus_exist f s c n u mw p0 nb))) (h_ca (fst (tus_exist f s c n u mw p0 nb))).
Proof.
  intros Hu Hnz [Hoz [po [Hpo Hoo]]]. unfold tus_exist.
  destruct (tus_chk c u mw (p_want p0) (p_given p0)) as [[[mw1 g1] oc]|] eqn:EC; [|apply own_laws_refl].
  apply tus_chk_spec in EC. destruct EC as [-> [HGS [HOC _]]].
  set (oldw := p_want p0) in *. set (oldg := p_given p0) in *.
  set (w1 := tus_w1 c u mw g1 oldw).
  assert (cgiven c u = Some oldg) as CGu by (unfold cgiven; rewrite Hu; reflexivity).
  assert (cwant c u = Some oldw) as CWu by (unfold cwant; rewrite Hu; reflexivity).
  (* the new grant of [u] is the old one or justified *)
  assert (g1 = oldg \/ own_given_just c s u u g1) as HG1.
  { destruct HGS as [E|[[A [B C]]|[A [B [C D]]]]]; [left; exact E|right|right].
    - right. right. left. split; [reflexivity|]. exists p0, mw. auto.
    - right. left. split; [reflexivity|]. exists p0, mw. repeat split; auto. }
  set (upd := mkUpd (if (w1 =? oldw)%N then None else Some w1) (if (g1 =? oldg)%N then None else Some g1) None None None).
  set (need := negb ((w1 =? oldw)%N && (g1 =? oldg)%N)).
  destruct (if need then call f n else (true, n)) as [ok1 n1]. destruct (negb ok1); [apply own_laws_refl|].
  set (s1 := if need then ad_subs_update s u upd else s).
  assert (forall v, sgiven s1 v = sgiven s v \/ exists g', sgiven s1 v = Some g' /\ own_given_just c s u v g') as S1G.
  { intros v. subst s1. destruct need; [|left; reflexivity]. rewrite sgiven_update.
    replace (u =? 0)%N with false by (symmetry; apply N.eqb_neq; exact Hnz). cbn [orb].
    eqb_cases v u; [|left; reflexivity]. destruct (sgiven s u) as [g0|]; [|left; reflexivity]. cbn.
    subst upd. cbn [u_given]. destruct (g1 =? oldg)%N eqn:EG; cbn; [left; reflexivity|].
    destruct HG1 as [E|J]; [subst g1; rewrite N.eqb_refl in EG; discriminate|right; eauto]. }
  assert (forall v, swant s1 v = swant s v \/ exists w', swant s1 v = Some w' /\ own_want_just c u v w') as S1W.
  { intros v. subst s1. destruct need; [|left; reflexivity]. rewrite swant_update.
    replace (u =? 0)%N with false by (symmetry; apply N.eqb_neq; exact Hnz). cbn [orb].
    eqb_cases v u; [|left; reflexivity]. destruct (swant s u) as [w0|]; [|left; reflexivity]. cbn.
    right. eexists. split; [reflexivity|left; reflexivity]. }
  destruct oc.
  - (* ownership transfer *)
    destruct (HOC eq_refl) as [OG [OW OM]].
    assert (pending_transferee c u) as PT by (exists p0; auto).
    assert (c_owner c <> u) as Hne.
    { intros E. rewrite E in Hpo. rewrite Hu in Hpo. inv Hpo. unfold pud_mode in Hoo.
      apply is_owner_land in Hoo. destruct Hoo as [_ B]. fold oldw in B. congruence. }
    set (prev := c_owner c) in *. set (pp := get_pud c prev).
    set (pw := N.ldiff (p_want pp) mO). set (pg := N.ldiff (p_given pp) mO).
    assert (own_given_just c s u prev pg) as JG.
    { right. right. right. repeat split; auto. }
    assert (own_want_just c u prev pw) as JW.
    { right. repeat split; auto. }
    destruct (call f n1) as [ok2 n2]. destruct (negb ok2).
    { cbn [fst h_st h_ca]. repeat split; auto. }
    set (s2 := ad_subs_update s1 prev (mkUpd (Some pw) (Some pg) None None None)).
    assert (forall v, sgiven s2 v = sgiven s v \/ exists g', sgiven s2 v = Some g' /\ own_given_just c s u v g') as S2G.
    { intros v. subst s2. rewrite sgiven_update.
      replace (prev =? 0)%N with false by (symmetry; apply N.eqb_neq; exact Hoz). cbn [orb].
      eqb_cases v prev; [|apply S1G]. cbn [u_given oset].
      destruct (S1G prev) as [E|[g' [E _]]]; rewrite E.
      - destruct (sgiven s prev); cbn; [right; eauto|left; reflexivity].
      - cbn. right. eauto. }
    assert (forall v, swant s2 v = swant s v \/ exists w', swant s2 v = Some w' /\ own_want_just c u v w') as S2W.
    { intros v. subst s2. rewrite swant_update.
      replace (prev =? 0)%N with false by (symmetry; apply N.eqb_neq; exact Hoz). cbn [orb].
      eqb_cases v prev; [|apply S1W]. cbn [u_want oset].
      destruct (S1W prev) as [E|[w' [E _]]]; rewrite E.
      - destruct (swant s prev); cbn; [right; eauto|left; reflexivity].
      - cbn. right. eauto. }
    destruct (call f n2) as [ok3 n3]. destruct (negb ok3).
    { cbn [fst h_st h_ca]. repeat split; auto. }
    set (c3 := c_set_owner u (c_set_users (aset prev (p_set_modes pw pg pp)) c)).
    destruct (tus_finish_res u w1 g1 oldw oldg nb (st_owner u s2) c3 n3) as [R1 [R2 [R3 _]]].
    rewrite R1. split; [exact S2G|]. split; [exact S2W|]. split.
    + intros v g'. rewrite R2. eqb_cases v u.
      * intros H. inv H. destruct HG1 as [E|J]; [left; congruence|right; exact J].
      * subst c3. unfold cgiven. cbn [c_users c_set_users c_set_owner]. rewrite alookup_aset.
        eqb_cases v prev; cbn; [intros H; inv H; right; exact JG|auto].
    + intros v w'. rewrite R3. eqb_cases v u.
      * intros _. right. left. reflexivity.
      * subst c3. unfold cwant. cbn [c_users c_set_users c_set_owner]. rewrite alookup_aset.
        eqb_cases v prev; cbn; [intros H; inv H; right; exact JW|auto].
  - destruct (tus_finish_res u w1 g1 oldw oldg nb s1 c n1) as [R1 [R2 [R3 _]]].
    rewrite R1. split; [exact S1G|]. split; [exact S1W|]. split.
    + intros v g'. rewrite R2. eqb_cases v u; [|auto].
      intros H. inv H. destruct HG1 as [E|J]; [left; congruence|right; exact J].
    + intros v w'. rewrite R3. eqb_cases v u; [|auto]. intros _. right. left. reflexivity.
Qed.

Lemma tus_laws f s c n u want nb :
  u <> 0%N -> owner_sane c ->
  own_laws c s u (h_st (fst (tus f s c n u want nb))) (h_ca (fst (tus f s c n u want nb))).
Proof.
  intros Hnz Hos. unfold tus. destruct (tus_mw want) as [mw okw]. destruct (negb okw); [apply own_laws_refl|].
  destruct (alookup u (c_users c)) eqn:E; [apply tus_exist_laws; auto|apply tus_new_laws; auto].
Qed.

(* ---------- anotherUserSub ---------- *)
Definition other_laws (c : cache) (s : store) (a t : N) (s' : store) (c' : cache) : Prop :=
  (forall v, sgiven s' v = sgiven s v \/ exists g', sgiven s' v = Some g' /\ v = t /\ other_given_just c a v g') /\
  (forall v, swant s' v = swant s v \/ exists w', swant s' v = Some w' /\ v = t /\ other_want_just c s a v w') /\
  (forall v g', cgiven c' v = Some g' -> cgiven c v = Some g' \/ (v = t /\ other_given_just c a v g')) /\
  (forall v w', cwant c' v = Some w' -> cwant c v = Some w' \/ (v = t /\ other_want_just c s a v w')).
Lemma other_laws_refl c s a t : other_laws c s a t s c.
Proof. repeat split; auto. Qed.

Lemma other_laws_evict c s a t s' c1 u k c' o :
  other_laws c s a t s' c1 -> evict_user c1 u false k = (c', o) -> other_laws c s a t s' c'.
Proof.
  intros [L1 [L2 [L3 L4]]] EV. repeat split; auto.
  - intros v g'. rewrite (evict_cgiven _ _ _ _ _ _ v EV), andb_false_r. apply L3.
  - intros v w'. rewrite (evict_cwant _ _ _ _ _ _ v EV), andb_false_r. apply L4.
Qed.

Lemma aus_laws f s c n u t mode :
  t <> 0%N ->
  other_laws c s u t (h_st (fst (aus f s c n u t mode))) (h_ca (fst (aus f s c n u t mode))).
Proof.
  intros Htz. unfold aus.
  destruct (alookup u (c_users c)) as [hp|] eqn:Eh; [|apply other_laws_refl].
  assert (member c u = true) as Hmem by (unfold member; rewrite Eh; reflexivity).
  assert (user_mode c u = pud_mode hp) as Hum by (unfold user_mode, get_pud; rewrite Eh; reflexivity).
  destruct (negb (is_sharer (pud_mode hp))) eqn:ES; [apply other_laws_refl|].
  apply negb_false_iff in ES.
  destruct (tus_mw mode) as [mg okg]. destruct (negb okg); [apply other_laws_refl|].
  destruct (negb (mg =? ModeUnset)%N && negb (is_admin (pud_mode hp))) eqn:EA; [apply other_laws_refl|].
  destruct (is_owner mg && negb (N.eqb (c_owner c) u)) eqn:EO; [apply other_laws_refl|].
  assert ((mg =? ModeUnset)%N = false -> is_admin (user_mode c u) = true) as HA.
  { intros E. rewrite E in EA. cbn in EA. apply negb_false_iff in EA. rewrite Hum. exact EA. }
  assert (is_owner mg = true -> c_owner c = u) as HO.
  { intros E. rewrite E in EO. cbn in EO. apply negb_false_iff in EO. apply N.eqb_eq in EO. exact EO. }
  destruct (alookup t (c_users c)) as [pt|] eqn:Et.
  - (* existing subscription of the target *)
    unfold aus_exist.
    destruct ((mg =? ModeUnset)%N || (mg =? p_given pt)%N) eqn:ESame.
    { destruct (negb (is_joiner (p_given pt))); [|apply other_laws_refl].
      destruct (evict_user c t false 0) as [c4 o4] eqn:EV. cbn [fst h_st h_ca].
      eapply other_laws_evict; [apply other_laws_refl|exact EV]. }
    apply orb_false_iff in ESame. destruct ESame as [EU _].
    destruct (N.eqb (c_owner c) t && _); [apply other_laws_refl|].
    destruct (call f n) as [ok1 n1]. destruct (negb ok1); [apply other_laws_refl|].
    assert (other_given_just c u t mg) as JG.
    { split; [exact Hmem|]. left. split; [apply HA; exact EU|exact HO]. }
    set (s1 := ad_subs_update s t (mkUpd None (Some mg) None None None)).
    set (c1 := c_set_users (aset t (p_set_modes (p_want pt) mg pt)) c).
    assert (other_laws c s u t s1 c1) as L.
    { repeat split.
      - intros v. subst s1. rewrite sgiven_update.
        replace (t =? 0)%N with false by (symmetry; apply N.eqb_neq; exact Htz). cbn [orb].
        eqb_cases v t; [|left; reflexivity]. destruct (sgiven s t); cbn; [right; eauto|left; reflexivity].
      - intros v. left. subst s1. apply swant_update_none. reflexivity.
      - intros v g'. subst c1. unfold cgiven. cbn [c_users c_set_users]. rewrite alookup_aset.
        eqb_cases v t; cbn; [intros H; inv H; right; auto|auto].
      - intros v w'. subst c1. unfold cwant. cbn [c_users c_set_users]. rewrite alookup_aset.
        eqb_cases v t; cbn; [|auto]. intros H. inv H. left. rewrite Et. reflexivity. }
    destruct (negb (is_joiner mg)); [|exact L].
    destruct (evict_user c1 t false 0) as [c4 o4] eqn:EV. cbn [fst h_st h_ca].
    eapply other_laws_evict; [exact L|exact EV].
  - (* invitation *)
    assert (member c t = false) as Hnm by (unfold member; rewrite Et; reflexivity).
    unfold aus_new.
    destruct (max_subs <=? _); [apply other_laws_refl|].
    set (given := if (mg =? ModeUnset)%N then N.lor (c_auth c) mJ else mg).
    assert (other_given_just c u t given) as JG.
    { split; [exact Hmem|]. subst given. destruct (mg =? ModeUnset)%N eqn:EU.
      - right. rewrite Hum. auto.
      - left. split; [apply HA; reflexivity|exact HO]. }
    destruct (call f n) as [ok1 n1]. destruct (negb ok1); [apply other_laws_refl|].
    set (wres := match ad_sub_get s t true with
                 | Some r => (n1, Some (inr (s_want r)))
                 | None => let '(ok2, n2) := call f n1 in
                           if negb ok2 then (n2, Some (inl 500)) else
                           match alookup t (users s) with
                           | None => (n2, Some (inl 404))
                           | Some acc => (n2, Some (inr (N.land acc given)))
                           end
                 end).
    assert (forall n2 wantm, wres = (n2, Some (inr wantm)) -> other_want_just c s u t wantm) as JW.
    { intros n2 wantm H. split; [exact Hmem|]. split; [rewrite Hum; exact ES|]. split; [exact Hnm|].
      subst wres. unfold ad_sub_get in H.
      destruct (find_sub t (subs s)) eqn:EF.
      - cbn [negb] in H. rewrite andb_false_r in H. inv H. right. eauto.
      - destruct (call f n1) as [ok2 n2']. destruct (negb ok2); [discriminate|].
        destruct (alookup t (users s)) eqn:EU; inv H. left. eauto. }
    destruct wres as [n2 [[code|wantm]|]] eqn:EW; try apply other_laws_refl.
    specialize (JW _ _ eq_refl).
    destruct (negb (is_joiner wantm)); [apply other_laws_refl|].
    destruct (call f n2) as [ok3 n3]. destruct (negb ok3); [apply other_laws_refl|].
    set (s3 := ad_sub_create s t wantm given).
    set (c3 := c_set_users (aset t (mkPud wantm given 0 0 0 0)) c).
    assert (other_laws c s u t s3 c3) as L.
    { repeat split.
      - intros v. subst s3. rewrite sgiven_create. eqb_cases v t; [right; eauto|left; reflexivity].
      - intros v. subst s3. rewrite swant_create. eqb_cases v t; [right; eauto|left; reflexivity].
      - intros v g'. subst c3. unfold cgiven. cbn [c_users c_set_users]. rewrite alookup_aset.
        eqb_cases v t; cbn; [intros H; inv H; right; auto|auto].
      - intros v w'. subst c3. unfold cwant. cbn [c_users c_set_users]. rewrite alookup_aset.
        eqb_cases v t; cbn; [intros H; inv H; right; auto|auto]. }
    destruct (negb (is_joiner given)); [|exact L].
    destruct (evict_user c3 t false 0) as [c4 o4] eqn:EV. cbn [fst h_st h_ca].
    eapply other_laws_evict; [exact L|exact EV].
Qed.

(* ---------- requests that do not touch permissions ---------- *)
Definition acl_same (s s' : store) : Prop := forall v, sgiven s' v = sgiven s v /\ swant s' v = swant s v.
(* cache entries keep their modes or disappear *)
Definition no_sess (c : cache) (v : N) : Prop := forall sid b, ~ In (sid, (v, b)) (c_sess c).
Definition cacl_shrink (c c' : cache) : Prop :=
  incl (c_sess c') (c_sess c) /\
  forall v, (cgiven c' v = cgiven c v /\ cwant c' v = cwant c v) \/
            (cgiven c' v = None /\ cwant c' v = None /\ no_sess c' v).
Lemma acl_same_refl s : acl_same s s. Proof. split; reflexivity. Qed.
Lemma cacl_shrink_refl c : cacl_shrink c c. Proof. split; [apply incl_refl|]. left. split; reflexivity. Qed.
Lemma acl_same_trans a b c : acl_same a b -> acl_same b c -> acl_same a c.
Proof. intros H1 H2 v. destruct (H1 v), (H2 v). split; congruence. Qed.
Lemma cacl_shrink_trans a b c : cacl_shrink a b -> cacl_shrink b c -> cacl_shrink a c.
Proof.
  intros [I1 H1] [I2 H2]. split; [eapply incl_tran; eauto|]. intros v.
  destruct (H2 v) as [[A B]|[A [B N]]]; [|right; auto].
  destruct (H1 v) as [[C D]|[C [D N]]]; [left; split; congruence|right].
  split; [congruence|]. split; [congruence|]. intros sid b' HI. apply (N sid b'). apply I2. exact HI.
Qed.

Lemma acl_same_update_marks s u a b d : acl_same s (ad_subs_update s u (mkUpd None None a b d)).
Proof. intros v. split; [apply sgiven_update_none|apply swant_update_none]; reflexivity. Qed.
Lemma acl_same_subs_delete s u s' : ad_subs_delete s u = Some s' -> acl_same s s'.
Proof. intros H v. split; [eapply sgiven_delete|eapply swant_delete]; eauto. Qed.
Lemma acl_same_msgs s f : acl_same s (st_msgs f s). Proof. intros v. split; reflexivity. Qed.
Lemma acl_same_seqid s z : acl_same s (st_seqid z s). Proof. intros v. split; reflexivity. Qed.
Lemma acl_same_delid s z : acl_same s (st_delid z s). Proof. intros v. split; reflexivity. Qed.
Lemma acl_same_dellog s f : acl_same s (st_dellog f s). Proof. intros v. split; reflexivity. Qed.
Lemma acl_same_msg_save s q a b s' : ad_msg_save s q a b = Some s' -> acl_same s s'.
Proof. unfold ad_msg_save. destruct (existsb _ _); intros H; inv H. apply acl_same_msgs. Qed.
Lemma acl_same_delete_list s d fu rs : acl_same s (ad_msg_delete_list s d fu rs).
Proof. unfold ad_msg_delete_list. destruct (fu =? 0)%N; intros v; split; reflexivity. Qed.

Lemma cacl_sess c f : incl (f (c_sess c)) (c_sess c) -> cacl_shrink c (c_set_sess f c).
Proof. intros I. split; [exact I|]. intros v. left. split; reflexivity. Qed.
Lemma cacl_lastid c z : cacl_shrink c (c_set_lastid z c). Proof. split; [apply incl_refl|]. intros v. left. split; reflexivity. Qed.
Lemma cacl_delid c z : cacl_shrink c (c_set_delid z c). Proof. split; [apply incl_refl|]. intros v. left. split; reflexivity. Qed.
Lemma aremove_incl {A} k (l : list (N * A)) : incl (aremove k l) l.
Proof.
  induction l as [|[k0 v0] l IH]; cbn; [apply incl_refl|].
  destruct (N.eqb k k0); [apply incl_tl; exact IH|apply incl_cons; [now left|apply incl_tl; exact IH]].
Qed.
Lemma cacl_aset_same c u p p' :
  alookup u (c_users c) = Some p -> p_want p' = p_want p -> p_given p' = p_given p ->
  cacl_shrink c (c_set_users (aset u p') c).
Proof.
  intros H W G. split; [apply incl_refl|]. intros v. left. unfold cgiven, cwant. cbn [c_users c_set_users]. rewrite alookup_aset.
  eqb_cases v u; [rewrite H; cbn; split; congruence|split; reflexivity].
Qed.
Lemma cacl_evict c u b k c' o : evict_user c u b k = (c', o) -> cacl_shrink c c'.
Proof.
  intros EV. split; [rewrite (evict_sess _ _ _ _ _ _ EV); apply incl_filter|].
  intros v. rewrite (evict_cgiven _ _ _ _ _ _ v EV), (evict_cwant _ _ _ _ _ _ v EV).
  destruct (N.eqb v u && b) eqn:E; [right|left; split; reflexivity].
  split; [reflexivity|]. split; [reflexivity|]. intros sid b' HI.
  rewrite (evict_sess _ _ _ _ _ _ EV) in HI. apply filter_In in HI. destruct HI as [_ HI]. cbn in HI.
  apply andb_prop in E. destruct E as [E _]. rewrite E in HI. discriminate.
Qed.
Lemma cacl_map_delid c d : cacl_shrink c (c_set_users (map (fun e => (fst e, p_set_delid d (snd e)))) c).
Proof.
  split; [apply incl_refl|]. intros v. left. unfold cgiven, cwant. cbn [c_users c_set_users]. rewrite alookup_map.
  destruct (alookup v (c_users c)); split; reflexivity.
Qed.

(* a user whose effective mode has any bit is cached *)
Lemma get_pud_has c u bit : has (pud_mode (get_pud c u)) bit = true -> alookup u (c_users c) = Some (get_pud c u).
Proof.
  unfold get_pud. destruct (alookup u (c_users c)); [reflexivity|].
  unfold pud_mode, blank_pud, has. cbn. discriminate.
Qed.

Definition hsame (s : store) (c : cache) (h : hres) : Prop := acl_same s (h_st h) /\ cacl_shrink c (h_ca h).

Lemma publish_same f s c n sid u ct ne : hsame s c (publish f s c n sid u ct ne).
Proof.
  unfold publish, hsame.
  destruct (negb (is_writer _)) eqn:EW; [split; [apply acl_same_refl|apply cacl_shrink_refl]|].
  destruct (call f n) as [ok1 n1]. destruct (negb ok1); [split; [apply acl_same_refl|apply cacl_shrink_refl]|].
  destruct (call f n1) as [ok2 n2]. destruct (negb ok2); [split; [apply acl_same_seqid|apply cacl_shrink_refl]|].
  destruct (ad_msg_save _ _ _ _) as [s2|] eqn:ES; [|split; [apply acl_same_seqid|apply cacl_shrink_refl]].
  destruct (if is_reader _ then call f n2 else (true, n2)) as [ok3 n3]. cbn [h_st h_ca].
  split.
  - eapply acl_same_trans; [apply acl_same_seqid|]. eapply acl_same_trans; [eapply acl_same_msg_save; exact ES|].
    destruct (is_reader _ && ok3); [apply acl_same_update_marks|apply acl_same_refl].
  - destruct (alookup u (c_users c)) eqn:E; [|apply cacl_lastid].
    eapply cacl_shrink_trans; [apply cacl_lastid|].
    apply cacl_aset_same with (p := p); [exact E| |]; unfold get_pud; rewrite E; reflexivity.
Qed.

Lemma note_same f s c n sid u what seq : hsame s c (note f s c n sid u what seq).
Proof.
  unfold note, hsame. pose proof (acl_same_refl s) as R1. pose proof (cacl_shrink_refl c) as R2.
  destruct (c_lastid c <? seq); [auto|].
  destruct (N.eqb what K_kp). { destruct (negb _); auto. }
  destruct (N.eqb what K_read || N.eqb what K_recv); [|auto].
  destruct (negb (is_reader (pud_mode (get_pud c u)))) eqn:ER; [auto|].
  apply negb_false_iff in ER. apply get_pud_has in ER.
  destruct (_ && _); [auto|]. destruct (_ && _); [auto|].
  destruct (call f n) as [ok1 n1]. destruct (negb ok1); [auto|]. cbn [h_st h_ca]. split.
  - destruct (N.eqb what K_read); apply acl_same_update_marks.
  - apply cacl_aset_same with (p := get_pud c u); auto.
Qed.

Lemma get_data_same f s c n sid u a b l : hsame s c (get_data f s c n sid u a b l).
Proof.
  unfold get_data, hsame. repeat break_match; cbn [h_st h_ca]; split; try apply acl_same_refl; apply cacl_shrink_refl.
Qed.
Lemma get_desc_same s c n sid u : hsame s c (get_desc s c n sid u).
Proof.
  unfold get_desc, hsame. repeat break_match; cbn [h_st h_ca]; split; try apply acl_same_refl; apply cacl_shrink_refl.
Qed.
Lemma get_sub_same f s c n sid u : hsame s c (get_sub f s c n sid u).
Proof.
  unfold get_sub, hsame. repeat break_match; cbn [h_st h_ca]; split; try apply acl_same_refl; apply cacl_shrink_refl.
Qed.
Lemma get_del_same nr f s c n sid u a b l : hsame s c (get_del nr f s c n sid u a b l).
Proof.
  unfold get_del, hsame. repeat break_match; cbn [h_st h_ca]; split; try apply acl_same_refl; apply cacl_shrink_refl.
Qed.

Lemma del_msg_same dr f s c n sid u req hard : hsame s c (del_msg dr f s c n sid u req hard).
Proof.
  unfold del_msg, hsame. pose proof (acl_same_refl s) as R1. pose proof (cacl_shrink_refl c) as R2.
  cbv zeta.
  destruct (negb (hard && is_deleter (user_mode c u)) && negb (is_reader (user_mode c u))) eqn:EP; [auto|].
  assert (alookup u (c_users c) = Some (get_pud c u)) as Hu.
  { apply andb_false_iff in EP. destruct EP as [E|E]; apply negb_false_iff in E.
    - apply andb_true_iff in E. destruct E as [_ E]. eapply get_pud_has; exact E.
    - eapply get_pud_has; exact E. }
  destruct (dr (c_lastid c) req) as [ranges|]; [|auto].
  destruct (call f n) as [ok1 n1]. destruct (negb ok1); [auto|].
  destruct (call f n1) as [ok2 n2]. destruct (negb ok2); [split; [apply acl_same_delete_list|auto]|].
  destruct (call f n2) as [ok3 n3].
  assert (acl_same s (st_delid (c_delid c + 1) (ad_msg_delete_list s (c_delid c + 1)
            (if hard && is_deleter (user_mode c u) then 0%N else u) ranges))) as A2.
  { eapply acl_same_trans; [apply acl_same_delete_list|apply acl_same_delid]. }
  destruct (negb ok3); [split; [exact A2|auto]|]. cbn [h_st h_ca]. split.
  - eapply acl_same_trans; [exact A2|apply acl_same_update_marks].
  - destruct (hard && is_deleter (user_mode c u)).
    + eapply cacl_shrink_trans; [apply cacl_delid|apply cacl_map_delid].
    + eapply cacl_shrink_trans; [apply cacl_delid|].
      apply cacl_aset_same with (p := get_pud c u); auto.
Qed.

Lemma del_sub_same f s c n sid u t : hsame s c (del_sub f s c n sid u t).
Proof.
  unfold del_sub, hsame. pose proof (acl_same_refl s) as R1. pose proof (cacl_shrink_refl c) as R2.
  destruct (negb _); [auto|]. destruct (_ || _); [auto|].
  destruct (alookup t (c_users c)); [|auto].
  destruct (is_owner _); [auto|]. destruct (negb _); [auto|].
  destruct (call f n) as [ok1 n1]. destruct (negb ok1); [auto|].
  destruct (evict_user c t true 0) as [c1 o1] eqn:EV.
  destruct (ad_subs_delete s t) as [s'|] eqn:ED; cbn [h_st h_ca]; split;
    try (eapply cacl_evict; exact EV); [eapply acl_same_subs_delete; exact ED|auto].
Qed.

Lemma leave_unsub_same f s c n sid u : hsame s c (leave_unsub f s c n sid u).
Proof.
  unfold leave_unsub, hsame. pose proof (acl_same_refl s) as R1. pose proof (cacl_shrink_refl c) as R2.
  destruct (N.eqb (c_owner c) u); [auto|].
  destruct (call f n) as [ok1 n1]. destruct (negb ok1); [auto|].
  destruct (ad_subs_delete s u) as [s'|] eqn:ED; [|auto].
  destruct (evict_user c u true sid) as [c1 o1] eqn:EV. cbn [h_st h_ca]. split.
  - eapply acl_same_subs_delete; exact ED.
  - eapply cacl_evict; exact EV.
Qed.

Lemma alookup_in {A} k (l : list (N * A)) v : alookup k l = Some v -> In (k, v) l.
Proof.
  induction l as [|[k0 v0] l IH]; cbn; [discriminate|].
  destruct (N.eqb k k0) eqn:E; [intros H; inv H; apply N.eqb_eq in E; subst; now left|right; auto].
Qed.

Lemma leave_same c sid u : sess_members c -> cacl_shrink c (fst (leave c sid u)).
Proof.
  intros SM. unfold leave. destruct (alookup sid (c_sess c)) as [[su bkg]|] eqn:E; [|apply cacl_shrink_refl].
  cbn [fst]. apply alookup_in in E. apply SM in E. unfold member in E.
  cbn [c_users c_set_sess]. destruct (alookup su (c_users c)) as [p|] eqn:Ep; [|discriminate].
  destruct bkg; [apply cacl_sess; apply aremove_incl|].
  eapply cacl_shrink_trans; [apply cacl_sess; apply aremove_incl|]. apply cacl_aset_same with (p := p); auto.
Qed.

(* ---------- one request ---------- *)
Lemma tus_ok_member f s c n u want nb ch :
  snd (tus f s c n u want nb) = SubOk ch -> member (h_ca (fst (tus f s c n u want nb))) u = true.
Proof.
  unfold tus. destruct (tus_mw want) as [mw okw]. destruct (negb okw); [discriminate|].
  assert (forall c0 p k c' o, evict_user (c_set_users (aset u p) c0) u false k = (c', o) -> member c' u = true) as EVM.
  { intros c0 p k c' o EV. unfold member. rewrite (evict_lookup _ _ _ _ _ _ u EV), N.eqb_refl.
    cbn [c_users c_set_users]. rewrite alookup_aset, N.eqb_refl. reflexivity. }
  assert (forall c0 p, member (c_set_users (aset u p) c0) u = true) as ASM.
  { intros. rewrite member_aset, N.eqb_refl. reflexivity. }
  destruct (alookup u (c_users c)) as [p0|].
  - unfold tus_exist. destruct (tus_chk _ _ _ _ _) as [[[mw1 g1] oc]|]; [|discriminate].
    destruct (if negb _ then call f n else (true, n)) as [ok1 n1]. destruct (negb ok1); [discriminate|].
    assert (forall s3 c3 n3, snd (tus_finish u (tus_w1 c u mw1 g1 (p_want p0)) g1 (p_want p0) (p_given p0) nb s3 c3 n3) = SubOk ch ->
            member (h_ca (fst (tus_finish u (tus_w1 c u mw1 g1 (p_want p0)) g1 (p_want p0) (p_given p0) nb s3 c3 n3))) u = true) as FIN.
    { intros s3 c3 n3. unfold tus_finish. destruct (negb (is_joiner _)).
      - destruct (evict_user _ u false 0) as [c5 o5] eqn:EV. cbn [fst snd h_ca]. intros _. eapply EVM; exact EV.
      - destruct (negb (is_joiner g1)); cbn [fst snd h_ca]; [discriminate|intros _; apply ASM]. }
    destruct oc; [|apply FIN].
    destruct (call f n1) as [ok2 n2]. destruct (negb ok2); [discriminate|].
    destruct (call f n2) as [ok3 n3]. destruct (negb ok3); [discriminate|]. apply FIN.
  - unfold tus_new. destruct (max_subs <=? _); [discriminate|].
    destruct (call f n) as [ok1 n1]. destruct (negb ok1); [discriminate|].
    destruct (negb (is_joiner _)); [discriminate|].
    destruct (if (_ : bool) then call f n1 else (true, n1)) as [ok2 n2]. destruct (negb ok2); [discriminate|].
    destruct (negb (is_joiner _)).
    + destruct (evict_user _ u false 0) as [c3 o3] eqn:EV. cbn [fst snd h_ca]. intros _. eapply EVM; exact EV.
    + cbn [fst snd h_ca]. intros _. apply ASM.
Qed.

Lemma own_laws_cache_eq c s a s' c1 c2 :
  own_laws c s a s' c1 -> (forall v, cgiven c2 v = cgiven c1 v /\ cwant c2 v = cwant c1 v) -> own_laws c s a s' c2.
Proof.
  intros [L1 [L2 [L3 L4]]] H. repeat split; auto.
  - intros v g'. destruct (H v) as [E _]. rewrite E. apply L3.
  - intros v w'. destruct (H v) as [_ E]. rewrite E. apply L4.
Qed.

Lemma sub_reply_laws f s c n sid u want bkg :
  u <> 0%N -> owner_sane c ->
  own_laws c s u (h_st (sub_reply f s c n sid u want bkg)) (h_ca (sub_reply f s c n sid u want bkg)).
Proof.
  intros Hnz Hos. unfold sub_reply. rewrite tus_eq.
  set (nb := match alookup u (c_users c) with Some _ => false | None => true end).
  pose proof (tus_laws f s c n u want nb Hnz Hos) as L.
  pose proof (tus_ok_member f s c n u want nb) as M.
  destruct (tus f s c n u want nb) as [h r]. cbn [fst snd] in *.
  destruct r as [code|ch]; cbn [h_st h_ca]; [exact L|].
  specialize (M ch eq_refl).
  eapply own_laws_cache_eq; [exact L|]. intros v.
  destruct (match ch with Some (w, g) => is_joiner (N.land g w) | None => true end); [|split; reflexivity].
  destruct bkg; [split; reflexivity|].
  unfold member in M. cbn [c_users c_set_sess] in *.
  unfold cgiven, cwant, get_pud. cbn [c_users c_set_users c_set_sess]. rewrite alookup_aset.
  destruct (alookup u (c_users (h_ca h))) as [p|] eqn:E; [|discriminate].
  eqb_cases v u; [rewrite E|]; split; reflexivity.
Qed.

Lemma set_sub_res f s c n sid u t mode :
  let h := set_sub f s c n sid u t mode in
  (if (t =? 0)%N || N.eqb t u
   then h_st h = h_st (fst (tus f s c n u mode false)) /\ h_ca h = h_ca (fst (tus f s c n u mode false))
   else h_st h = h_st (fst (aus f s c n u t mode)) /\ h_ca h = h_ca (fst (aus f s c n u t mode))).
Proof.
  unfold set_sub. rewrite tus_eq, aus_eq. destruct ((t =? 0)%N || N.eqb t u).
  - destruct (tus f s c n u mode false) as [h r]. destruct r as [code|ch]; split; reflexivity.
  - destruct (aus f s c n u t mode) as [h r]. destruct r as [code|ch]; split; reflexivity.
Qed.

Lemma offline_set_sub_laws f s sid u t mode :
  u <> 0%N ->
  let s' := o_st (offline_set_sub f s sid u t mode) in
  (forall v, sgiven s' v = sgiven s v) /\
  (forall v, swant s' v = swant s v \/ (v = u /\ (t = 0%N \/ t = u) /\ exists w', swant s' v = Some w')).
Proof.
  intros Hnz. unfold offline_set_sub. destruct mode as [|b mode']; [split; auto|].
  destruct (negb (t =? 0)%N && negb (N.eqb t u)) eqn:ET; [split; auto|].
  assert (t = 0%N \/ t = u) as HT.
  { apply andb_false_iff in ET. destruct ET as [E|E]; apply negb_false_iff in E; apply N.eqb_eq in E; auto. }
  destruct (call f 0) as [ok1 n1]. destruct (negb ok1); [split; auto|].
  destruct (ad_sub_get s u false) as [r|] eqn:EG; [|split; auto].
  assert (exists w0, swant s u = Some w0) as [w0 Hw0].
  { unfold ad_sub_get in EG. unfold swant. destruct (find_sub u (subs s)); [eexists; reflexivity|discriminate]. }
  destruct (unmarshal_text 0%N (b :: mode')) as [mw okw]. destruct (negb okw); [split; auto|].
  destruct (negb (Bool.eqb _ _)); [split; auto|]. destruct (mw =? s_want r)%N; [split; auto|].
  destruct (call f n1) as [ok2 n2]. destruct (negb ok2); [split; auto|]. cbn [o_st]. split.
  - intros v. apply sgiven_update_none. reflexivity.
  - intros v. rewrite swant_update.
    replace (u =? 0)%N with false by (symmetry; apply N.eqb_neq; exact Hnz). cbn [orb].
    eqb_cases v u; [|auto]. right. split; [reflexivity|]. split; [exact HT|]. rewrite Hw0. cbn. eauto.
Qed.

Section StepLaws.
Variable dr : Z -> list (Z * Z) -> option (list (Z * Z)).
Variable nr : list (Z * Z) -> list (Z * Z).
Variable sm : sessmap.

Lemma laws_of_same x o x' :
  acl_same (st x) (st x') -> (forall c', ca x' = Some c' -> cacl_shrink (view x) c') -> step_laws sm x o x'.
Proof.
  intros A C. unfold step_laws. repeat split.
  - intros v. left. apply A.
  - intros v. left. apply A.
  - intros c' E v g' H. left. destruct (C c' E) as [_ C']. destruct (C' v) as [[G _]|[G _]]; congruence.
  - intros c' E v w' H. left. destruct (C c' E) as [_ C']. destruct (C' v) as [[_ W]|[_ [W _]]]; congruence.
Qed.

Lemma laws_of_own x o s' c' n :
  own_request (actor sm o) o -> own_laws (view x) (st x) (actor sm o) s' c' ->
  step_laws sm x o (mkState s' (Some c') n).
Proof.
  intros R [L1 [L2 [L3 L4]]]. unfold step_laws. cbn [st ca]. repeat split.
  - intros v. destruct (L1 v) as [E|[g' [E J]]]; [left; exact E|right; exists g'; split; [exact E|right; auto]].
  - intros v. destruct (L2 v) as [E|[g' [E J]]]; [left; exact E|right; exists g'; split; [exact E|right; auto]].
  - intros c0 E v g' H. inv E. destruct (L3 v g' H); [left; auto|right; right; auto].
  - intros c0 E v g' H. inv E. destruct (L4 v g' H); [left; auto|right; right; auto].
Qed.

Lemma laws_of_other x o t s' c' n :
  other_request (actor sm o) t o -> other_laws (view x) (st x) (actor sm o) t s' c' ->
  step_laws sm x o (mkState s' (Some c') n).
Proof.
  intros R [L1 [L2 [L3 L4]]]. unfold step_laws. cbn [st ca]. repeat split.
  - intros v. destruct (L1 v) as [E|[g' [E [-> J]]]]; [left; exact E|right; exists g'; split; [exact E|left; auto]].
  - intros v. destruct (L2 v) as [E|[g' [E [-> J]]]]; [left; exact E|right; exists g'; split; [exact E|left; auto]].
  - intros c0 E v g' H. inv E. destruct (L3 v g' H) as [|[-> J]]; [left; auto|right; left; auto].
  - intros c0 E v g' H. inv E. destruct (L4 v g' H) as [|[-> J]]; [left; auto|right; left; auto].
Qed.

Lemma laws_same_state x o n : step_laws sm x o (mkState (st x) (ca x) n).
Proof.
  apply laws_of_same; cbn [st ca]; [apply acl_same_refl|].
  intros c' E. unfold view. rewrite E. apply cacl_shrink_refl.
Qed.
Lemma laws_keep x o c0 n : ca x = c0 -> step_laws sm x o (mkState (st x) c0 n).
Proof. intros <-. apply laws_same_state. Qed.
Lemma laws_unloaded x o s' n : acl_same (st x) s' -> step_laws sm x o (mkState s' None n).
Proof. intros A. apply laws_of_same; cbn [st ca]; [exact A|discriminate]. Qed.

Lemma laws_of_hsame x o c h :
  ca x = Some c -> hsame (st x) c h -> step_laws sm x o (mkState (h_st h) (Some (h_ca h)) (h_n h)).
Proof.
  intros E [A C]. apply laws_of_same; cbn [st ca]; [exact A|].
  intros c' E'. inv E'. unfold view. rewrite E. exact C.
Qed.

Ltac keep := first [apply laws_keep; assumption | apply laws_keep; reflexivity].

Theorem step_writer_laws f x o :
  logged_in sm o -> owner_sane (view x) -> sess_members (view x) ->
  step_laws sm x o (fst (step dr nr sm f x o)).
Proof.
  intros LI OS SM. unfold step.
  destruct o as [sid want bkg|sid unsub|sid ct ne|sid what seq|sid a b l|sid|sid|sid a b l|sid req hard|sid t mode|sid t| |];
    cbn [fst].
  - (* sub *)
    unfold logged_in in LI. cbn [op_sid] in LI.
    assert (own_request (actor sm (OSub sid want bkg)) (OSub sid want bkg)) as OR by (left; eauto).
    destruct (ca x) as [c|] eqn:EC.
    + destruct (attached c sid); cbn [fst]; [keep|].
      apply laws_of_own; [exact OR|]. unfold view in *. rewrite EC in *. apply sub_reply_laws; auto.
    + destruct (try_load f (st x) 0) as [n1 [c|code]] eqn:ET; cbn [fst].
      * apply laws_of_own; [exact OR|]. unfold view in *. rewrite EC in *.
        unfold try_load in ET. repeat break_match_hyp; inv ET. apply sub_reply_laws; auto.
      * keep.
  - (* leave *)
    destruct (ca x) as [c|] eqn:EC; [|cbn [negb]; keep].
    destruct (attached c sid); cbn [negb]; [|keep].
    destruct unsub; cbn [fst].
    + apply (laws_of_hsame x _ c); [exact EC|apply leave_unsub_same].
    + destruct (leave c sid _) as [c1 o1] eqn:EL. cbn [fst h_st h_ca h_n].
      apply laws_of_same; cbn [st ca]; [apply acl_same_refl|].
      intros c' E. inv E. unfold view in *. rewrite EC in *.
      pose proof (leave_same c sid (match alookup sid (c_sess c) with Some (a, _) => a | None => sess_uid sm sid end) SM) as L.
      rewrite EL in L. exact L.
  - (* pub *)
    destruct (ca x) as [c|] eqn:EC; [|cbn [negb]; keep].
    destruct (attached c sid); cbn [negb fst]; [|keep].
    apply (laws_of_hsame x _ c); [exact EC|apply publish_same].
  - (* note *)
    destruct (ca x) as [c|] eqn:EC.
    + destruct (attached c sid); cbn [negb].
      * repeat break_match; cbn [fst]; try (keep);
          apply (laws_of_hsame x _ c); try exact EC; apply note_same.
      * repeat break_match; cbn [fst]; try (keep);
          apply (laws_of_hsame x _ c); try exact EC; apply note_same.
    + cbn [negb]. repeat break_match; cbn [fst]; keep.
  - (* get data *)
    destruct (ca x) as [c|] eqn:EC; [|cbn [negb]; keep].
    destruct (attached c sid); cbn [negb fst]; [|keep].
    apply (laws_of_hsame x _ c); [exact EC|apply get_data_same].
  - (* get desc *)
    assert (forall n, step_laws sm x (OGetDesc sid) (mkState (o_st (offline_get_desc f (st x) sid (sess_uid sm sid))) (ca x) n)) as OFF.
    { intros n. rewrite offline_get_desc_frame. keep. }
    destruct (ca x) as [c|] eqn:EC; [|cbn [negb fst]; apply OFF].
    destruct (attached c sid); cbn [negb fst]; [|apply OFF].
    apply (laws_of_hsame x _ c); [exact EC|apply get_desc_same].
  - (* get sub *)
    assert (forall n, step_laws sm x (OGetSub sid) (mkState (o_st (offline_get_sub f (st x) sid (sess_uid sm sid))) (ca x) n)) as OFF.
    { intros n. rewrite offline_get_sub_frame. keep. }
    destruct (ca x) as [c|] eqn:EC; [|cbn [negb fst]; apply OFF].
    destruct (attached c sid); cbn [negb fst]; [|apply OFF].
    apply (laws_of_hsame x _ c); [exact EC|apply get_sub_same].
  - (* get del *)
    destruct (ca x) as [c|] eqn:EC; [|cbn [negb]; keep].
    destruct (attached c sid); cbn [negb fst]; [|keep].
    apply (laws_of_hsame x _ c); [exact EC|apply get_del_same].
  - (* del msg *)
    destruct (ca x) as [c|] eqn:EC; [|cbn [negb]; keep].
    destruct (attached c sid); cbn [negb fst]; [|keep].
    apply (laws_of_hsame x _ c); [exact EC|apply del_msg_same].
  - (* set sub *)
    unfold logged_in in LI. cbn [op_sid] in LI. set (u := sess_uid sm sid) in *.
    assert (forall n, step_laws sm x (OSetSub sid t mode)
              (mkState (o_st (offline_set_sub f (st x) sid u t mode)) (ca x) n)) as OFF.
    { intros n. destruct (offline_set_sub_laws f (st x) sid u t mode LI) as [G W].
      unfold step_laws. cbn [st ca]. repeat split.
      - intros v. left. apply G.
      - intros v. destruct (W v) as [E|[-> [HT [w' EW]]]]; [left; exact E|].
        right. exists w'. split; [exact EW|]. right. split; [right; eauto|left; reflexivity].
      - intros c' E v g' H. left. unfold view. rewrite E. exact H.
      - intros c' E v w' H. left. unfold view. rewrite E. exact H. }
    destruct (ca x) as [c|] eqn:EC; [|cbn [negb fst]; apply OFF].
    destruct (attached c sid); cbn [negb fst]; [|apply OFF].
    pose proof (set_sub_res f (st x) c 0 sid u t mode) as R. cbv zeta in R.
    unfold view in *. rewrite EC in *.
    destruct ((t =? 0)%N || N.eqb t u) eqn:ESelf; destruct R as [R1 R2]; rewrite R1, R2.
    + apply laws_of_own.
      * right. exists sid, t, mode. split; [reflexivity|].
        apply orb_true_iff in ESelf. destruct ESelf as [E|E]; apply N.eqb_eq in E; auto.
      * unfold view. rewrite EC. apply tus_laws; auto.
    + apply orb_false_iff in ESelf. destruct ESelf as [E1 E2]. apply N.eqb_neq in E1, E2.
      apply laws_of_other with (t := t).
      * exists sid, mode. auto.
      * unfold view. rewrite EC. apply aus_laws. exact E1.
  - (* del sub *)
    destruct (ca x) as [c|] eqn:EC; [|cbn [negb]; keep].
    destruct (attached c sid); cbn [negb fst]; [|keep].
    apply (laws_of_hsame x _ c); [exact EC|apply del_sub_same].
  - (* unload *)
    destruct (ca x) as [c|] eqn:EC.
    + destruct (c_sess c); cbn [fst]; [apply laws_unloaded; apply acl_same_refl|keep].
    + cbn [fst]. keep.
  - (* restart *)
    apply laws_unloaded. apply acl_same_refl.
Qed.
End StepLaws.
