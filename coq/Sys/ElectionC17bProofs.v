(* C17, part D: lemmas about the partition guard of Session.dispatch, the
   failCount / activeNodes bookkeeping of sendHealthChecks over ALL executions,
   and what an accepted health check means for later vote requests. *)
From Coq Require Import List Bool Arith Lia.
From Tinode Require Import Sys.Election Sys.ElectionProofs Sys.ElectionC17b.
Import ListNotations.

(* ------------------------------------------------------------------ *)
(* the guard of Session.dispatch *)

Lemma dispatch_partitioned_never_handles_c17b root r k : dispatch_c17b true root r <> HandlerD k.
Proof.
  unfold dispatch_c17b, dispatch_kind_c17b.
  destruct (rq_obo r); destruct root; destruct (rq_kind r); discriminate.
Qed.

Lemma dispatch_partitioned_502_c17b root r :
  well_formed_c17b root r = true -> dispatch_c17b true root r = RepliedD 502.
Proof.
  unfold well_formed_c17b, dispatch_c17b, dispatch_kind_c17b.
  destruct (rq_kind r); [|discriminate]. destruct (rq_obo r); destruct root; try discriminate; reflexivity.
Qed.

Lemma dispatch_healthy_handles_c17b root r k :
  well_formed_c17b root r = true -> rq_kind r = Some k -> dispatch_c17b false root r = HandlerD k.
Proof.
  unfold well_formed_c17b, dispatch_c17b, dispatch_kind_c17b. intros H Hk. rewrite Hk in *.
  destruct (rq_obo r); destruct root; try discriminate; reflexivity.
Qed.

(* what happens before the guard does not depend on the partition *)
Lemma dispatch_front_c17b p root r :
  well_formed_c17b root r = false -> dispatch_c17b p root r = dispatch_c17b false root r.
Proof.
  unfold well_formed_c17b, dispatch_c17b, dispatch_kind_c17b.
  destruct (rq_kind r); destruct (rq_obo r); destruct root; try discriminate; reflexivity.
Qed.

(* all ten kinds, by enumeration *)
Lemma all_kinds_complete_c17b k : In k all_kinds_c17b.
Proof. destruct k; cbn; tauto. Qed.

Lemma dispatch_all_kinds_c17b :
  forallb (fun k => match dispatch_c17b true false (mkReqD (Some k) OboNoneD) with RepliedD 502 => true | _ => false end)
          all_kinds_c17b = true.
Proof. reflexivity. Qed.

(* ------------------------------------------------------------------ *)
(* sendHealthChecks: failCount per peer and the rehash flag *)

Lemma health_results_nocross limit ok ps : 1 <= limit -> forall fc rh,
  snd (health_results limit ok ps fc rh) = false ->
  rh = false /\ forall p, (fst (health_results limit ok ps fc rh) p <? limit) = (fc p <? limit).
Proof.
  intros Hl. induction ps as [|q ps IH]; intros fc rh; cbn [health_results].
  - cbn. auto.
  - destruct (mem q ok).
    + intros H. destruct (IH _ _ H) as [Hrh Hp]. apply orb_false_iff in Hrh as [-> Hq].
      split; [reflexivity|]. intros p. rewrite Hp. unfold upd.
      destruct (Nat.eqb_spec p q) as [->|]; [|reflexivity].
      apply Nat.leb_gt in Hq. symmetry. transitivity true; [now apply Nat.ltb_lt|].
      symmetry. apply Nat.ltb_lt. lia.
    + intros H. destruct (IH _ _ H) as [Hrh Hp]. apply orb_false_iff in Hrh as [-> Hq].
      split; [reflexivity|]. intros p. rewrite Hp. unfold upd.
      destruct (Nat.eqb_spec p q) as [->|]; [|reflexivity].
      apply Nat.eqb_neq in Hq.
      destruct (Nat.ltb_spec (S (fc q)) limit); destruct (Nat.ltb_spec (fc q) limit); try reflexivity; lia.
Qed.

Lemma health_results_fst limit ok ps : NoDup ps -> forall fc rh p,
  fst (health_results limit ok ps fc rh) p =
  if mem p ps then (if mem p ok then 0 else S (fc p)) else fc p.
Proof.
  induction 1 as [|q ps Hq ND IH]; intros fc rh p; cbn [health_results]; [reflexivity|].
  cbn [mem existsb]. fold (mem p ps).
  destruct (mem q ok) eqn:Eq; rewrite IH; unfold upd;
    (destruct (Nat.eqb_spec p q) as [->|Hne]; cbn [orb];
     [ assert (Hm : mem q ps = false) by (destruct (mem q ps) eqn:E; [apply mem_In in E; contradiction|reflexivity]);
       rewrite Hm, ?Eq; reflexivity
     | reflexivity ]).
Qed.

(* ------------------------------------------------------------------ *)
(* the failover fields (activeNodes, failCount) change only in the leader branch of the ticker case *)

Definition failover_fields (l : local) : list node * (node -> nat) := (active_nodes l, fail_count l).

Lemma loop_or_exit_failover cfg n l vc i :
  failover_fields (loop_or_exit cfg n l vc i) = failover_fields l.
Proof.
  unfold loop_or_exit. destruct (_ && _); [reflexivity|]. destruct (_ <=? _); reflexivity.
Qed.

Lemma handle_health_failover l h : failover_fields (handle_health l h) = failover_fields l.
Proof.
  unfold handle_health. destruct (h_term h <? term l); [reflexivity|].
  destruct (term l <? h_term h); [|destruct (is_leader l (h_leader h))];
    (destruct (negb _); [destruct (rehash_skipped _)|]; reflexivity).
Qed.

Definition leader_tick (cfg : config) (s : state) (e : event) (n : node) : bool :=
  match e with
  | Tick n' _ _ => (n' =? n) && mem n (cfg_nodes cfg) &&
                   match electing (loc s n) with Some _ => false | None => is_leader (loc s n) n end
  | _ => false
  end.

Lemma step_failover_unchanged cfg s e n :
  leader_tick cfg s e n = false -> failover_fields (loc (step cfg s e) n) = failover_fields (loc s n).
Proof.
  intros Hlt. destruct e; cbn [step].
  - (* Tick *) unfold tick. cbn [leader_tick] in Hlt.
    destruct (mem n0 (cfg_nodes cfg)) eqn:Hm; cbn [negb]; [|reflexivity].
    destruct (electing (loc s n0)) eqn:El; [reflexivity|].
    destruct (is_leader (loc s n0) n0) eqn:Ld.
    + destruct (Nat.eqb_spec n0 n) as [->|Hne].
      * rewrite Hm, El, Ld in Hlt. discriminate.
      * unfold send_health. destruct (health_results _ _ _ _ _) as [fc rh].
        cbn. unfold upd. apply Nat.eqb_neq in Hne. rewrite Nat.eqb_sym in Hne. now rewrite Hne.
    + destruct (_ <=? _).
      * unfold start_election. cbn. unfold upd. destruct (n =? n0) eqn:E; [|reflexivity].
        apply Nat.eqb_eq in E. subst. rewrite loop_or_exit_failover. reflexivity.
      * cbn. unfold upd. destruct (n =? n0) eqn:E; [|reflexivity]. apply Nat.eqb_eq in E. subst. reflexivity.
  - unfold deliver_req. destruct (rpcs s c t m); try reflexivity. destruct (negb _); [reflexivity|].
    destruct (electing _); [reflexivity|]. destruct (_ <? _); cbn; [|reflexivity].
    unfold upd. destruct (n =? m) eqn:E; [|reflexivity]. apply Nat.eqb_eq in E. subst. reflexivity.
  - unfold deliver_rep. destruct (rpcs s c t m); try reflexivity.
    destruct (electing (loc s c)) as [[vc i]|]; [|reflexivity].
    destruct (_ =? _); [|reflexivity].
    destruct (match r with Granted _ => _ | Denied rt => _ | RpcError => _ end) as [vc' i'].
    cbn. unfold upd. destruct (n =? c) eqn:E; [|reflexivity]. apply Nat.eqb_eq in E. subst.
    apply loop_or_exit_failover.
  - unfold lose_rpc. destruct (rpcs s c t m); reflexivity.
  - unfold fail_rpc. destruct (rpcs s c t m); reflexivity.
  - unfold election_timeout. destruct (electing (loc s c)) as [[vc i]|] eqn:El; [|reflexivity].
    cbn. unfold upd. destruct (n =? c) eqn:E; [|reflexivity]. apply Nat.eqb_eq in E. subst.
    apply loop_or_exit_failover.
  - unfold deliver_health. destruct (nth_error _ _) as [h|]; [|reflexivity].
    destruct (electing _); [reflexivity|]. cbn. unfold upd.
    destruct (n =? h_to h) eqn:E; [|reflexivity]. apply Nat.eqb_eq in E. subst. apply handle_health_failover.
  - reflexivity.
Qed.

(* the leader branch: exactly sendHealthChecks *)
Lemma step_leader_tick cfg s e n :
  leader_tick cfg s e n = true ->
  exists d ok, e = Tick n d ok /\ In n (cfg_nodes cfg) /\ electing (loc s n) = None /\ leader (loc s n) = Some n /\
    let '(fc, rh) := health_results (cfg_fail_limit cfg) ok (peers cfg n) (fail_count (loc s n)) false in
    failover_fields (loc (step cfg s e) n) =
      if rh then (n :: filter (fun p => fc p <? cfg_fail_limit cfg) (peers cfg n), fc)
      else (active_nodes (loc s n), fc).
Proof.
  destruct e; cbn [leader_tick]; try discriminate.
  intros H. apply andb_true_iff in H as [H H3]. apply andb_true_iff in H as [H1 H2].
  apply Nat.eqb_eq in H1. subst n0. exists delivered, ok.
  destruct (electing (loc s n)) eqn:El; [discriminate|].
  split; [reflexivity|]. split; [now apply mem_In|]. split; [reflexivity|].
  split.
  { unfold is_leader in H3. destruct (leader (loc s n)) as [x|]; [|discriminate].
    apply Nat.eqb_eq in H3. now subst. }
  cbn [step]. unfold tick. rewrite H2, El, H3. cbn [negb]. unfold send_health.
  destruct (health_results _ _ _ _ _) as [fc rh]. cbn. unfold upd. rewrite Nat.eqb_refl.
  destruct rh; reflexivity.
Qed.

(* ------------------------------------------------------------------ *)
(* INVARIANT of every execution: on every node the active list has as many
   entries as the node itself plus its peers with failCount below the limit *)

Lemma filter_all_c17b {A} (f : A -> bool) l : (forall x, In x l -> f x = true) -> filter f l = l.
Proof.
  induction l as [|x l IH]; intros H; cbn; [reflexivity|].
  rewrite (H x (or_introl eq_refl)). f_equal. apply IH. intros y Hy. apply H. now right.
Qed.

Section ActInv.
  Variable cfg : config.
  Hypothesis limit_pos : 1 <= cfg_fail_limit cfg.

  Definition act_inv (s : state) : Prop :=
    forall n, length (active_nodes (loc s n)) = S (length (below_limit_c17b cfg (loc s n) n)).

  Lemma act_inv_init : act_inv (init cfg).
  Proof.
    intros n. unfold below_limit_c17b, init, init_local. cbn [loc active_nodes fail_count].
    rewrite app_length. cbn [length].
    replace (filter _ (peers cfg n)) with (peers cfg n); [lia|].
    symmetry. apply filter_all_c17b. intros x _. apply Nat.ltb_lt. lia.
  Qed.

  Lemma act_inv_step s e : act_inv s -> act_inv (step cfg s e).
  Proof.
    intros Hinv n. destruct (leader_tick cfg s e n) eqn:Hlt.
    - destruct (step_leader_tick _ _ _ _ Hlt) as (d & ok & -> & Hin & El & Ld & Hff).
      remember (health_results (cfg_fail_limit cfg) ok (peers cfg n) (fail_count (loc s n)) false) as hr eqn:Ehr.
      destruct hr as [fc rh]. unfold failover_fields in Hff. cbn [step] in Hff |- *.
      unfold below_limit_c17b. destruct rh.
      + injection Hff as H1 H2. rewrite H1, H2. reflexivity.
      + injection Hff as H1 H2. rewrite H1, H2. rewrite (Hinv n). f_equal. unfold below_limit_c17b.
        assert (Hs : snd (health_results (cfg_fail_limit cfg) ok (peers cfg n) (fail_count (loc s n)) false) = false)
          by (rewrite <- Ehr; reflexivity).
        destruct (health_results_nocross _ ok (peers cfg n) limit_pos _ _ Hs) as [_ Hp].
        rewrite <- Ehr in Hp. cbn [fst] in Hp.
        f_equal. apply filter_ext. intros p. symmetry. apply Hp.
    - pose proof (step_failover_unchanged cfg s e n Hlt) as H. unfold failover_fields in H.
      injection H as H1 H2. unfold below_limit_c17b. rewrite H1, H2. apply Hinv.
  Qed.

  Lemma act_inv_fold evs : forall s, act_inv s -> act_inv (fold_left (step cfg) evs s).
  Proof. induction evs as [|e evs IH]; cbn; auto using act_inv_step. Qed.

  Lemma active_tracks_failcount evs n :
    length (active_nodes (loc (run cfg evs) n)) = S (length (below_limit_c17b cfg (loc (run cfg evs) n) n)).
  Proof. apply act_inv_fold, act_inv_init. Qed.

  Hypothesis nodup : NoDup (cfg_nodes cfg).

  (* isPartitioned, in every reachable state: this node + the peers below the limit are
     no more than half of the configured nodes *)
  Lemma partitioned_iff_reach evs n : In n (cfg_nodes cfg) ->
    (is_partitioned cfg (run cfg evs) n = true <->
     2 * S (length (below_limit_c17b cfg (loc (run cfg evs) n) n)) <= length (cfg_nodes cfg)).
  Proof.
    intros Hin. rewrite (is_partitioned_iff cfg nodup _ n Hin), active_tracks_failcount. reflexivity.
  Qed.

  Lemma partitioned_stops_serving evs n root r : In n (cfg_nodes cfg) ->
    2 * S (length (below_limit_c17b cfg (loc (run cfg evs) n) n)) <= length (cfg_nodes cfg) ->
    (forall k, client_request_c17b cfg (run cfg evs) n root r <> HandlerD k) /\
    (well_formed_c17b root r = true -> client_request_c17b cfg (run cfg evs) n root r = RepliedD 502).
  Proof.
    intros Hin Hhalf. apply (partitioned_iff_reach evs n Hin) in Hhalf.
    unfold client_request_c17b. rewrite Hhalf. split.
    - intros k. apply dispatch_partitioned_never_handles_c17b.
    - apply dispatch_partitioned_502_c17b.
  Qed.

  Lemma healthy_serves evs n root r k : In n (cfg_nodes cfg) ->
    length (cfg_nodes cfg) < 2 * S (length (below_limit_c17b cfg (loc (run cfg evs) n) n)) ->
    well_formed_c17b root r = true -> rq_kind r = Some k ->
    client_request_c17b cfg (run cfg evs) n root r = HandlerD k.
  Proof.
    intros Hin Hmaj Hwf Hk. unfold client_request_c17b.
    destruct (is_partitioned cfg (run cfg evs) n) eqn:P.
    - apply (partitioned_iff_reach evs n Hin) in P. lia.
    - now apply dispatch_healthy_handles_c17b.
  Qed.

  (* one heartbeat of a leader: failCount of every peer *)
  Lemma leader_tick_failcount s n d ok p :
    In n (cfg_nodes cfg) -> electing (loc s n) = None -> leader (loc s n) = Some n ->
    fail_count (loc (tick cfg s n d ok) n) p =
    if mem p (peers cfg n) then (if mem p ok then 0 else S (fail_count (loc s n) p)) else fail_count (loc s n) p.
  Proof.
    intros Hin El Ld.
    assert (Hlt : leader_tick cfg s (Tick n d ok) n = true).
    { cbn. rewrite Nat.eqb_refl, El. apply mem_In in Hin. rewrite Hin. cbn. unfold is_leader. rewrite Ld. apply Nat.eqb_refl. }
    destruct (step_leader_tick _ _ _ _ Hlt) as (d' & ok' & E & _ & _ & _ & Hff).
    injection E as <- <-.
    pose proof (health_results_fst (cfg_fail_limit cfg) ok (peers cfg n) (peers_nodup cfg nodup n)
                  (fail_count (loc s n)) false p) as Hfst.
    destruct (health_results _ _ _ _ _) as [fc rh]. cbn [fst] in Hfst.
    cbn [step] in Hff. unfold failover_fields in Hff.
    destruct rh; injection Hff as _ ->; exact Hfst.
  Qed.

  (* a leader stays the (non-electing) leader of the same term across its own heartbeat *)
  Lemma leader_tick_keeps s n d ok :
    In n (cfg_nodes cfg) -> electing (loc s n) = None -> leader (loc s n) = Some n ->
    electing (loc (tick cfg s n d ok) n) = None /\ leader (loc (tick cfg s n d ok) n) = Some n /\
    term (loc (tick cfg s n d ok) n) = term (loc s n).
  Proof.
    intros Hin El Ld. unfold tick. apply mem_In in Hin. rewrite Hin, El. cbn [negb].
    unfold is_leader. rewrite Ld, Nat.eqb_refl. unfold send_health.
    destruct (health_results _ _ _ _ _) as [fc rh]. cbn. unfold upd. rewrite Nat.eqb_refl.
    destruct rh; cbn; auto.
  Qed.

  (* [k] consecutive heartbeats of leader n on which NO peer answers *)
  Fixpoint silent_ticks (n : node) (ds : list (list node)) (s : state) : state :=
    match ds with
    | [] => s
    | d :: ds' => silent_ticks n ds' (tick cfg s n d [])
    end.

  Lemma silent_ticks_spec n ds : forall s,
    In n (cfg_nodes cfg) -> electing (loc s n) = None -> leader (loc s n) = Some n ->
    let s' := silent_ticks n ds s in
    electing (loc s' n) = None /\ leader (loc s' n) = Some n /\
    forall p, In p (peers cfg n) -> fail_count (loc s' n) p = length ds + fail_count (loc s n) p.
  Proof.
    induction ds as [|d ds IH]; intros s Hin El Ld; cbn [silent_ticks length].
    - auto.
    - destruct (leader_tick_keeps s n d [] Hin El Ld) as (El' & Ld' & _).
      destruct (IH _ Hin El' Ld') as (E1 & E2 & E3). split; [exact E1|]. split; [exact E2|].
      intros p Hp. rewrite (E3 p Hp), (leader_tick_failcount s n d [] p Hin El Ld).
      apply mem_In in Hp. rewrite Hp. cbn. lia.
  Qed.
End ActInv.

(* the clause as the property words it, for a reachable state: a leader whose
   health checks of ALL peers fail for node_fail_after heartbeats in a row can reach
   one node of at least two, and refuses every client request *)
Lemma lonely_leader_stops cfg : NoDup (cfg_nodes cfg) -> 1 <= cfg_fail_limit cfg -> 2 <= length (cfg_nodes cfg) ->
  forall evs n ds, In n (cfg_nodes cfg) ->
  electing (loc (run cfg evs) n) = None -> leader (loc (run cfg evs) n) = Some n ->
  cfg_fail_limit cfg <= length ds ->
  let evs' := evs ++ map (fun d => Tick n d []) ds in
  is_partitioned cfg (run cfg evs') n = true /\
  forall root r, (forall k, client_request_c17b cfg (run cfg evs') n root r <> HandlerD k) /\
                 (well_formed_c17b root r = true -> client_request_c17b cfg (run cfg evs') n root r = RepliedD 502).
Proof.
  intros ND Hl H2 evs n ds Hin El Ld Hk evs'.
  assert (Hrun : run cfg evs' = silent_ticks cfg n ds (run cfg evs)).
  { unfold evs'. rewrite run_app. generalize (run cfg evs). clear.
    induction ds as [|d ds IH]; intros s; cbn; [reflexivity|]. apply IH. }
  destruct (silent_ticks_spec cfg Hl ND n ds (run cfg evs) Hin El Ld) as (_ & _ & Hfc).
  assert (Hbl : below_limit_c17b cfg (loc (run cfg evs') n) n = []).
  { unfold below_limit_c17b. rewrite Hrun.
    destruct (filter _ _) as [|p rest] eqn:E; [reflexivity|].
    assert (Hp : In p (filter (fun p0 => fail_count (loc (silent_ticks cfg n ds (run cfg evs)) n) p0 <? cfg_fail_limit cfg)
                              (peers cfg n))) by (rewrite E; left; reflexivity).
    apply filter_In in Hp as [Hp1 Hp2]. rewrite (Hfc p Hp1) in Hp2. apply Nat.ltb_lt in Hp2. lia. }
  assert (Hhalf : 2 * S (length (below_limit_c17b cfg (loc (run cfg evs') n) n)) <= length (cfg_nodes cfg))
    by (rewrite Hbl; cbn; lia).
  split.
  - now apply (partitioned_iff_reach cfg Hl ND evs' n Hin).
  - intros root r. now apply partitioned_stops_serving.
Qed.

(* ------------------------------------------------------------------ *)
(* the health-check branch: every guard, for every local state *)

Lemma handle_health_stale l h : accepts_c17b l h = false -> handle_health l h = l.
Proof. unfold accepts_c17b, handle_health. destruct (h_term h <? term l); [reflexivity|discriminate]. Qed.

(* an accepted check: whatever leader the node followed before (none, the same, another one)
   and whether the term is the node's own or a later one *)
Lemma handle_health_accepts l h : accepts_c17b l h = true ->
  let l' := handle_health l h in
  term l' = h_term h /\ leader l' = Some (h_leader h) /\ missed l' = 0 /\ electing l' = electing l /\
  active_nodes l' = active_nodes l /\ fail_count l' = fail_count l /\
  (if list_eqb (h_sig h) (sig_of (ring_nodes l)) then
     ring_nodes l' = ring_nodes l /\ rehash_skipped l' = rehash_skipped l
   else if rehash_skipped l then ring_nodes l' = h_nodes h /\ rehash_skipped l' = false
   else ring_nodes l' = ring_nodes l /\ rehash_skipped l' = true).
Proof.
  unfold accepts_c17b, handle_health. destruct (h_term h <? term l) eqn:E1; [discriminate|]. intros _.
  apply Nat.ltb_ge in E1.
  destruct (term l <? h_term h) eqn:E2.
  - cbn. destruct (list_eqb _ _); cbn; [auto 10|]. destruct (rehash_skipped l); cbn; auto 10.
  - apply Nat.ltb_ge in E2. assert (Et : term l = h_term h) by lia.
    unfold is_leader. destruct (leader l) as [x|] eqn:Ld.
    + destruct (Nat.eqb_spec x (h_leader h)) as [->|]; cbn; rewrite ?Ld;
        (destruct (list_eqb _ _); cbn; [auto 10|]; destruct (rehash_skipped l); cbn; auto 10).
    + cbn. destruct (list_eqb _ _); cbn; [auto 10|]. destruct (rehash_skipped l); cbn; auto 10.
Qed.

(* the four (term, leader) guards spelled out: the outcome for (term, leader) is the same in all *)
Lemma handle_health_guard_table l h :
  (h_term h < term l -> handle_health l h = l) /\
  (term l < h_term h ->
     term (handle_health l h) = h_term h /\ leader (handle_health l h) = Some (h_leader h)) /\
  (term l = h_term h -> leader l = Some (h_leader h) ->
     term (handle_health l h) = term l /\ leader (handle_health l h) = leader l) /\
  (term l = h_term h -> leader l <> Some (h_leader h) ->
     term (handle_health l h) = term l /\ leader (handle_health l h) = Some (h_leader h)).
Proof.
  split; [|split; [|split]].
  - intros H. apply handle_health_stale. unfold accepts_c17b. apply Nat.ltb_lt in H. now rewrite H.
  - intros H. assert (A : accepts_c17b l h = true) by (unfold accepts_c17b; apply negb_true_iff, Nat.ltb_ge; lia).
    destruct (handle_health_accepts l h A) as (T & L & _). auto.
  - intros H Hl. assert (A : accepts_c17b l h = true) by (unfold accepts_c17b; apply negb_true_iff, Nat.ltb_ge; lia).
    destruct (handle_health_accepts l h A) as (T & L & _). rewrite T, L, H, Hl. auto.
  - intros H Hl. assert (A : accepts_c17b l h = true) by (unfold accepts_c17b; apply negb_true_iff, Nat.ltb_ge; lia).
    destruct (handle_health_accepts l h A) as (T & L & _). rewrite T, L, H. auto.
Qed.

(* ------------------------------------------------------------------ *)
(* after an accepted health check of term T the node never again grants a vote of a term <= T,
   whatever happens in between *)

Lemma deliver_health_term s idx h :
  nth_error (hnet s) idx = Some h -> electing (loc s (h_to h)) = None ->
  accepts_c17b (loc s (h_to h)) h = true ->
  term (loc (deliver_health s idx) (h_to h)) = h_term h /\
  leader (loc (deliver_health s idx) (h_to h)) = Some (h_leader h).
Proof.
  intros Hn El A. unfold deliver_health. rewrite Hn, El. cbn. unfold upd. rewrite Nat.eqb_refl.
  destruct (handle_health_accepts _ _ A) as (T & L & _). auto.
Qed.

Lemma deliver_req_refuses cfg s c t m :
  t <= term (loc s m) -> rpcs s c t m = ReqFlying ->
  let s' := deliver_req cfg s c t m in
  (forall rt, rpcs s' c t m <> RepFlying (Granted rt)) /\
  (forall n, loc s' n = loc s n) /\ (forall t' m', votes s' t' m' = votes s t' m').
Proof.
  intros Ht R. unfold deliver_req. rewrite R.
  destruct (negb _); [rewrite R; repeat split; auto; discriminate|].
  destruct (electing _); [rewrite R; repeat split; auto; discriminate|].
  destruct (Nat.ltb_spec (term (loc s m)) t); [lia|].
  cbn. rewrite !Nat.eqb_refl. cbn. repeat split; auto. discriminate.
Qed.

Lemma no_stale_vote_after_health cfg s idx h evs c t :
  nth_error (hnet s) idx = Some h -> electing (loc s (h_to h)) = None ->
  accepts_c17b (loc s (h_to h)) h = true ->
  t <= h_term h ->
  let s1 := fold_left (step cfg) evs (deliver_health s idx) in
  rpcs s1 c t (h_to h) = ReqFlying ->
  let s2 := deliver_req cfg s1 c t (h_to h) in
  (forall rt, rpcs s2 c t (h_to h) <> RepFlying (Granted rt)) /\
  (forall n, loc s2 n = loc s1 n) /\ (forall t' m', votes s2 t' m' = votes s1 t' m').
Proof.
  intros Hn El A Ht s1 R. apply deliver_req_refuses; [|exact R].
  destruct (deliver_health_term s idx h Hn El A) as [T _].
  pose proof (fold_term_monotone cfg evs (deliver_health s idx) (h_to h)) as Hm. fold s1 in Hm. lia.
Qed.

(* the regression this part was written for, as a statement about the model: a follower of
   leader L that missed an election accepts L's check of the later term, and the delayed
   request of the election it missed is refused *)
Definition cfg5_c17b : config := mkConfig [0; 1; 2; 3; 4] 1 2.
Definition evs_same_leader_c17b : list event :=
  [ Tick 0 [] [];                                   (* 0 stands in term 1 *)
    DeliverReq 0 1 1; DeliverRep 0 1 1; DeliverReq 0 1 2; DeliverRep 0 1 2;   (* 0 leads term 1 *)
    Tick 0 [1; 2; 3; 4] [1; 2; 3; 4];
    DeliverHealth 0; DeliverHealth 0; DeliverHealth 0; DeliverHealth 0;      (* all follow 0 in term 1 *)
    Tick 4 [] [];                                   (* 4 stands in term 2 *)
    DeliverReq 4 2 0;                               (* only 0 hears it: 0 steps down, term 2 *)
    Tick 0 [] [];                                   (* 0 stands in term 3 *)
    DeliverReq 0 3 2; DeliverRep 0 3 2; DeliverReq 0 3 3; DeliverRep 0 3 3;   (* 0 leads term 3; 1 heard nothing *)
    Tick 0 [1] [1; 2; 3; 4] ].                      (* check (leader 0, term 3) on its way to 1, which is at (term 1, leader 0) *)

Lemma same_leader_later_term_c17b :
  let s := run cfg5_c17b evs_same_leader_c17b in
  (term (loc s 1), leader (loc s 1)) = (1, Some 0) /\
  (exists h, nth_error (hnet s) 0 = Some h /\ h_to h = 1 /\ h_leader h = 0 /\ h_term h = 3) /\
  rpcs s 4 2 1 = ReqFlying /\
  let s1 := deliver_health s 0 in
  (term (loc s1 1), leader (loc s1 1)) = (3, Some 0) /\
  vote_answer_c17b (deliver_req cfg5_c17b s1 4 2 1) 4 2 1 = Some (false, 3).
Proof. vm_compute. repeat split. eexists. repeat split. Qed.
