(* SEARCH layer of C19: the 'fnd' topic - where the query lives, how it is read,
   which terms may be used, what is handed to the store, what comes back.

     server/utils.go      rewriteTag 433-468 (the ORDER of its four steps is the model:
                          already prefixed -> validators with add_to_tags (PreCheck) ->
                          authenticators (AsTag, only when withLogin) -> plain tag or "")
     server/topic.go      replyGetSub, case TopicCatFnd 2423-2468 (public query of the
                          session has priority over the stored private query; login
                          rewriting only for the public one; parseSearchQuery; empty
                          reading = 400; masked-namespace gate against Topic.tags = 403;
                          store.Users.FindSubs(asUid, req, opt, sess.authLvl != auth.LevelRoot)
                          - sess.authLvl is an int (auth.Level): every value other than
                          LevelRoot = 30, i.e. LevelNone 0 (a session object that was never given a
                          level), LevelAnon 10 (anonymous-scheme account), LevelAuth 20 and any
                          other number, searches active rows only);
                          2505-2680 ({meta sub} / 204 no content)
                          replySetDesc, case TopicCatFnd 2234-2243, 2268, 2319-2322
                          (mergeInterfaces on strings, fndSetPublic called with
                          core["Public"] on EVERY accepted {set}: a {set} that carries only
                          desc.private removes the session's public query)
                          fndGetPublic / fndSetPublic 3595-3637
     server/init_topic.go initTopicFnd 185-220: Topic.tags is NOT assigned (only initTopicMe
                          copies user.Tags), so the fnd topic's own tag list is empty
     server/store/store.go usersMapper.FindSubs 427-445 (FindUsers ++ FindTopics, same
                          arguments)
     store contract       FindUsers / FindTopics (db/mysql/adapter.go 2352, 2444): rows with
                          at least one of the tags, every non-empty required group hit,
                          state = OK when activeOnly, the caller skipped among users

   External functions are Section variables: the unicode tables, [vals] = PreCheck of every
   validator configured with add_to_tags (country code -> term -> tag, [] = ""), [auths] =
   AsTag of every authenticator, both in the order in which rewriteTag's loops visit them.
   No plugin is configured (pluginFind returns the query unchanged).  Queries and tags are
   strings (a non-string fnd.public / private is answered 204 by the code and is outside).
   Definitions only. *)
From Coq Require Import NArith ZArith List Bool Arith.
Require Import Tinode.Base.Util Tinode.Pure.Query Tinode.Pure.Tags.
Import ListNotations.
Open Scope N_scope.

Definition query_c19 := list N.

(* for _, r := range rewriters { if tag := r(orig); tag != "" { return tag } } *)
Fixpoint first_rewrite_c19 (fs : list (tag -> tag)) (orig : tag) : tag :=
  match fs with
  | [] => []
  | f :: rest => match f orig with
                 | [] => first_rewrite_c19 rest orig
                 | (_ :: _) as t => t
                 end
  end.

(* a row that a search can find: an account or a group topic *)
Record cand_c19 := mkCandC19 {
  cd_id : N;
  cd_user : bool;                    (* account (true) / group topic (false) *)
  cd_ok : bool;                      (* state = StateOK (not suspended, not soft-deleted) *)
  cd_tags : list tag
}.

(* the fnd topic of one user *)
Record fnd_c19 := mkFndC19 {
  f_tags : list tag;                 (* Topic.tags *)
  f_public : list (N * query_c19);   (* Topic.public: session id -> query *)
  f_private : option query_c19       (* perUser[uid].private = subscriptions.private of the fnd row *)
}.

(* server/auth/auth.go 17-26: LevelNone Level = iota * 10, LevelAnon, LevelAuth, LevelRoot *)
Definition level_none_c19 : Z := 0.
Definition level_anon_c19 : Z := 10.
Definition level_auth_c19 : Z := 20.
Definition level_root_c19 : Z := 30.

Record sess_c19 := mkSessC19 {
  s_id : N;
  s_lvl : Z;                         (* sess.authLvl (auth.Level is an int: ANY value) *)
  s_cc : tag                         (* sess.countryCode *)
}.
(* sess.authLvl == auth.LevelRoot *)
Definition s_root (s : sess_c19) : bool := (s_lvl s =? level_root_c19)%Z.

Record fcfg_c19 := mkFcfgC19 {
  fc_masked : list tag;              (* globals.maskedTagNS *)
  fc_own : list tag;                 (* users.tags of the searching user *)
  fc_self : N;                       (* his id among the candidates *)
  fc_world : list cand_c19
}.

Inductive freq_c19 :=
| FSetDesc (s : sess_c19) (pub priv : option query_c19)     (* {set desc={public, private}} *)
| FGetSub (s : sess_c19)                                      (* {get what=sub} *)
| FUnload                                                     (* every session leaves, idle timeout *)
| FUserTags.           (* harness only: Topic.tags := users.tags, what initTopicMe does for 'me' *)

Inductive fresp_c19 := FCtrl (code : N) | FMeta (ids : list N) | FNone.

(* one call of store.Users.FindSubs *)
Record fcall_c19 := mkCallC19 { k_req : list (list tag); k_opt : list tag; k_active : bool }.
Definition call_terms_c19 (k : fcall_c19) : list tag := concat (k_req k) ++ k_opt k.

Fixpoint lookup_pub_c19 (sid : N) (m : list (N * query_c19)) : option query_c19 :=
  match m with
  | [] => None
  | (k, v) :: t => if k =? sid then Some v else lookup_pub_c19 sid t
  end.
Definition remove_pub_c19 (sid : N) (m : list (N * query_c19)) : list (N * query_c19) :=
  filter (fun kv => negb (fst kv =? sid)) m.

(* fndSetPublic(sess, public): nil deletes the session's entry *)
Definition fnd_set_public_c19 (m : list (N * query_c19)) (sid : N) (public : option query_c19)
  : list (N * query_c19) :=
  match public with
  | Some q => (sid, q) :: remove_pub_c19 sid m
  | None => remove_pub_c19 sid m
  end.

(* mergeInterfaces(dst, src) for a string src: None = not changed (nothing goes to the update
   map), Some v = changed, v the new value (None = nil) *)
Definition merge_str_c19 (dst src : option query_c19) : option (option query_c19) :=
  match src with
  | None => None
  | Some s => if list_eqb s null_value
              then match dst with Some _ => Some None | None => None end
              else Some (Some s)
  end.

(* the store contract of FindUsers / FindTopics *)
Definition has_any_c19 (ts have : list tag) : bool := existsb (fun t => mem t have) ts.
Definition cand_matches_c19 (req : list (list tag)) (opt : list tag) (c : cand_c19) : bool :=
  has_any_c19 (concat req ++ opt) (cd_tags c)
  && forallb (fun g => is_nil g || has_any_c19 g (cd_tags c)) req.
Definition find_users_c19 (self : N) (req : list (list tag)) (opt : list tag) (active : bool)
           (w : list cand_c19) : list cand_c19 :=
  filter (fun c => cd_user c && cand_matches_c19 req opt c && (negb active || cd_ok c)
                   && negb (cd_id c =? self)) w.
Definition find_topics_c19 (req : list (list tag)) (opt : list tag) (active : bool)
           (w : list cand_c19) : list cand_c19 :=
  filter (fun c => negb (cd_user c) && cand_matches_c19 req opt c && (negb active || cd_ok c)) w.
(* usersMapper.FindSubs *)
Definition find_subs_c19 (self : N) (req : list (list tag)) (opt : list tag) (active : bool)
           (w : list cand_c19) : list cand_c19 :=
  find_users_c19 self req opt active w ++ find_topics_c19 req opt active w.

Section FndSearchC19.
  Variable lower : N -> N.
  Variable is_letter : N -> bool.
  Variable is_number : N -> bool.
  Variable vals : list (tag -> tag -> tag).
  Variable auths : list (tag -> tag).

  (* rewriteTag(orig, countryCode, withLogin); [] = "" = not a valid tag *)
  Definition rewrite_tag_c19 (cc : tag) (with_login : bool) (orig : tag) : tag :=
    if prefixed is_letter is_number orig then orig
    else match first_rewrite_c19 (map (fun v => v cc) vals) orig with
         | (_ :: _) as t => t
         | [] =>
           match (if with_login then first_rewrite_c19 auths orig else []) with
           | (_ :: _) as t => t
           | [] => if tag_ok is_letter is_number orig then orig else []
           end
         end.

  (* parseSearchQuery(query, countryCode, withLogin) *)
  Definition parse_query_c19 (cc : tag) (with_login : bool) (q : query_c19) :=
    parse lower (rewrite_tag_c19 cc with_login) q.

  Variable c : fcfg_c19.

  (* raw := t.fndGetPublic(sess); if raw == nil { rewriteLogin = false; raw = userData.private } *)
  Definition active_query_c19 (t : fnd_c19) (s : sess_c19) : option (query_c19 * bool) :=
    match lookup_pub_c19 (s_id s) (f_public t) with
    | Some q => Some (q, true)
    | None => match f_private t with Some q => Some (q, false) | None => None end
    end.

  (* replyGetSub, case types.TopicCatFnd, and the reply that follows *)
  Definition get_sub_c19 (t : fnd_c19) (s : sess_c19) : fresp_c19 * option fcall_c19 :=
    match active_query_c19 t s with
    | None => (FCtrl 204, None)
    | Some (q, rewrite_login) =>
      if is_nil q then (FCtrl 204, None)
      else match parse_query_c19 (s_cc s) rewrite_login q with
           | Err => (FCtrl 400, None)                 (* query parsing error *)
           | Ok (req, opt) =>
             if is_nil req && is_nil opt then (FCtrl 400, None)    (* query string is empty *)
             else if negb (masked_gate is_letter is_number (f_tags t) (concat req ++ opt) (fc_masked c))
             then (FCtrl 403, None)                   (* attempt to search by restricted tags *)
             else
               (* sess.authLvl != auth.LevelRoot *)
               let active := negb (s_lvl s =? level_root_c19)%Z in
               let subs := find_subs_c19 (fc_self c) req opt active (fc_world c) in
               (match subs with [] => FCtrl 204 | _ => FMeta (map cd_id subs) end,
                Some (mkCallC19 req opt active))
           end
    end.

  (* replySetDesc, case types.TopicCatFnd *)
  Definition set_desc_c19 (t : fnd_c19) (s : sess_c19) (pub priv : option query_c19)
    : fnd_c19 * fresp_c19 :=
    let core_pub := merge_str_c19 (lookup_pub_c19 (s_id s) (f_public t)) pub in
    let sub_priv := merge_str_c19 (f_private t) priv in
    match core_pub, sub_priv with
    | None, None => (t, FCtrl 304)                    (* {set} generated no update *)
    | _, _ =>
      (* t.fndSetPublic(sess, core["Public"]): nil when the key is absent or was deleted *)
      let public' := fnd_set_public_c19 (f_public t) (s_id s)
                       (match core_pub with Some (Some q) => Some q | _ => None end) in
      let private' := match sub_priv with Some v => v | None => f_private t end in
      (mkFndC19 (f_tags t) public' private', FCtrl 200)
    end.

  (* initTopicFnd + loadSubscribers: no tags, no public, private from the subscription row *)
  Definition load_c19 (private : option query_c19) : fnd_c19 := mkFndC19 [] [] private.

  Definition step_c19 (t : fnd_c19) (r : freq_c19) : fnd_c19 * (fresp_c19 * option fcall_c19) :=
    match r with
    | FSetDesc s pub priv => let '(t', a) := set_desc_c19 t s pub priv in (t', (a, None))
    | FGetSub s => (t, get_sub_c19 t s)
    | FUnload => (load_c19 (f_private t), (FNone, None))
    | FUserTags => (mkFndC19 (fc_own c) (f_public t) (f_private t), (FNone, None))
    end.

  Fixpoint run_c19 (t : fnd_c19) (rs : list freq_c19) : fnd_c19 * list (fresp_c19 * option fcall_c19) :=
    match rs with
    | [] => (t, [])
    | r :: rest => let '(t1, a) := step_c19 t r in
                   let '(t2, l) := run_c19 t1 rest in (t2, a :: l)
    end.
End FndSearchC19.
