(* C06: ownership of a group topic.  Mode views of the store and of the cache,
   the ownership invariant, and what every store/cache primitive of the topic
   model does to the views.  The handlers are analysed in TopicOwnerProofs.v. *)
From Coq Require Import ZArith NArith List Bool Lia.
From Tinode Require Import Base.Util Pure.Acs Sys.Topic Sys.TopicTac Sys.TopicFrame Sys.TopicNum Sys.TopicMarks.
Import ListNotations.
Local Open Scope N_scope.

(* ------------------------------------------------------------------ *)
(* the O bit                                                            *)
Lemma land_mO m : N.land m mO = if N.testbit m 7 then mO else 0.
Proof.
  apply N.bits_inj. intros i. rewrite N.land_spec. unfold mO. change 128 with (2^7).
  rewrite N.pow2_bits_eqb.
  destruct (N.eqb_spec 7 i) as [<-|NE].
  - destruct (N.testbit m 7); [rewrite N.pow2_bits_true|rewrite N.bits_0]; reflexivity.
  - rewrite andb_false_r. destruct (N.testbit m 7); [rewrite N.pow2_bits_false by congruence|rewrite N.bits_0]; reflexivity.
Qed.
Lemma is_owner_bit m : is_owner m = N.testbit m 7.
Proof. unfold is_owner, has. rewrite land_mO. destruct (N.testbit m 7); reflexivity. Qed.
Lemma is_owner_land a b : is_owner (N.land a b) = is_owner a && is_owner b.
Proof. rewrite !is_owner_bit. apply N.land_spec. Qed.
Lemma is_owner_lor a b : is_owner (N.lor a b) = is_owner a || is_owner b.
Proof. rewrite !is_owner_bit. apply N.lor_spec. Qed.
Lemma is_owner_ldiff_mO a : is_owner (N.ldiff a mO) = false.
Proof. rewrite !is_owner_bit. rewrite N.ldiff_spec. unfold mO. change 128 with (2^7). rewrite N.pow2_bits_true. apply andb_false_r. Qed.
Lemma is_owner_ldiff_mD a : is_owner (N.ldiff a mD) = is_owner a.
Proof. rewrite !is_owner_bit. rewrite N.ldiff_spec. unfold mD. change 64 with (2^6). rewrite N.pow2_bits_false by discriminate. apply andb_true_r. Qed.
Lemma is_owner_unset : is_owner ModeUnset = false. Proof. reflexivity. Qed.
Lemma pud_mode_owner p : is_owner (pud_mode p) = is_owner (p_given p) && is_owner (p_want p).
Proof. unfold pud_mode. apply is_owner_land. Qed.

(* the mode a {sub}/{set sub} request names (ModeUnset when none) *)
Definition req_mode (want : list N) : N :=
  fst (match want with [] => (ModeUnset, true) | _ => unmarshal_text ModeUnset want end).

(* ------------------------------------------------------------------ *)
(* views: what the store and the cache say about one user's modes       *)
Definition smode (s : store) (u : N) : option (N * N * bool) :=
  match find_sub u (subs s) with Some r => Some (s_want r, s_given r, s_deleted r) | None => None end.
Definition cmode (c : cache) (u : N) : option (N * N) :=
  match alookup u (c_users c) with Some p => Some (p_want p, p_given p) | None => None end.
Definition sub_users (s : store) : list N := map s_user (subs s).

Lemma find_sub_user u l r : find_sub u l = Some r -> s_user r = u.
Proof. unfold find_sub. intros H. apply find_some in H. destruct H as [_ H]. now apply N.eqb_eq in H. Qed.
Lemma find_sub_in u l r : find_sub u l = Some r -> In r l.
Proof. unfold find_sub. intros H. apply find_some in H. tauto. Qed.
Lemma find_sub_none u l : find_sub u l = None -> ~ In u (map s_user l).
Proof.
  unfold find_sub. intros H Hin. apply in_map_iff in Hin. destruct Hin as [r [E Hr]].
  apply (find_none _ _ H) in Hr. cbn in Hr. rewrite E, N.eqb_refl in Hr. discriminate.
Qed.
Lemma find_sub_nodup l r : NoDup (map s_user l) -> In r l -> find_sub (s_user r) l = Some r.
Proof.
  induction l as [|a l IH]; cbn; [tauto|]. intros ND [->|Hin].
  - now rewrite N.eqb_refl.
  - inversion ND as [|? ? Ha Hl]; subst. destruct (N.eqb_spec (s_user a) (s_user r)) as [E|NE].
    + exfalso. apply Ha. rewrite E. now apply in_map.
    + now apply IH.
Qed.

Lemma find_sub_upd u v f l : (forall r, s_user r = u -> s_user (f r) = u) ->
  find_sub v (upd_sub u f l) = if N.eqb v u then option_map f (find_sub v l) else find_sub v l.
Proof.
  intros Hf. unfold find_sub, upd_sub. induction l as [|a l IH]; cbn.
  - now destruct (N.eqb v u).
  - destruct (N.eqb_spec (s_user a) u) as [E|NE].
    + rewrite (Hf a E). destruct (N.eqb_spec v u) as [->|NE2].
      * rewrite E, N.eqb_refl. reflexivity.
      * destruct (N.eqb_spec u v) as [E3|_]; [congruence|]. rewrite E.
        destruct (N.eqb_spec u v) as [E3|_]; [congruence|]. rewrite IH.
        destruct (N.eqb_spec v u); [contradiction|reflexivity].
    + destruct (N.eqb_spec (s_user a) v) as [E2|NE2].
      * destruct (N.eqb_spec v u) as [E3|_]; [congruence|reflexivity].
      * exact IH.
Qed.
Lemma find_sub_map f v l : (forall r, s_user (f r) = s_user r) -> find_sub v (map f l) = option_map f (find_sub v l).
Proof.
  intros Hf. unfold find_sub. induction l as [|a l IH]; cbn; [reflexivity|].
  rewrite Hf. destruct (N.eqb (s_user a) v); [reflexivity|exact IH].
Qed.
Lemma find_sub_app u l row :
  find_sub u (l ++ [row]) = match find_sub u l with Some r => Some r | None => if N.eqb (s_user row) u then Some row else None end.
Proof.
  unfold find_sub. induction l as [|a l IH]; cbn; [reflexivity|].
  destruct (N.eqb (s_user a) u); [reflexivity|exact IH].
Qed.
Lemma users_upd_sub u f l : (forall r, s_user r = u -> s_user (f r) = u) -> map s_user (upd_sub u f l) = map s_user l.
Proof.
  intros Hf. unfold upd_sub. rewrite map_map. apply map_ext. intros a.
  destruct (N.eqb_spec (s_user a) u) as [E|NE]; [rewrite (Hf a E); now rewrite E|reflexivity].
Qed.

(* ---------- store primitives ---------- *)
Lemma smode_sub_create s u w g v :
  smode (ad_sub_create s u w g) v = if N.eqb v u then Some (w, g, false) else smode s v.
Proof.
  unfold smode, ad_sub_create.
  assert (forall s1, subs (if is_owner (N.land w g) then st_owner u s1 else s1) = subs s1) as E by (intros; now destruct (is_owner _)).
  rewrite E. destruct (find_sub u (subs s)) as [r|] eqn:F; cbn [subs st_subs].
  - rewrite find_sub_upd by (intros; reflexivity). destruct (N.eqb_spec v u) as [->|NE]; [rewrite F; reflexivity|reflexivity].
  - rewrite find_sub_app. cbn [s_user]. destruct (N.eqb_spec v u) as [->|NE].
    + rewrite F, N.eqb_refl. reflexivity.
    + destruct (find_sub v (subs s)); [reflexivity|]. destruct (N.eqb_spec u v); [congruence|reflexivity].
Qed.
Lemma owner_sub_create s u w g : t_owner (ad_sub_create s u w g) = if is_owner (N.land w g) then u else t_owner s.
Proof. unfold ad_sub_create. destruct (is_owner _), (find_sub u (subs s)); reflexivity. Qed.
Lemma users_sub_create s u w g : NoDup (sub_users s) -> NoDup (sub_users (ad_sub_create s u w g)).
Proof.
  unfold sub_users, ad_sub_create. intros ND.
  assert (forall s1, subs (if is_owner (N.land w g) then st_owner u s1 else s1) = subs s1) as E by (intros; now destruct (is_owner _)).
  rewrite E. destruct (find_sub u (subs s)) eqn:F; cbn [subs st_subs].
  - rewrite users_upd_sub by (intros; reflexivity). exact ND.
  - rewrite map_app. cbn. apply NoDup_app_single; [exact ND|]. now apply find_sub_none.
Qed.

Definition upd_modes (up : subupd) (m : N * N * bool) : N * N * bool :=
  (match u_want up with Some x => x | None => fst (fst m) end,
   match u_given up with Some x => x | None => snd (fst m) end, snd m).
Lemma smode_subs_update s u up v : u <> 0 ->
  smode (ad_subs_update s u up) v = if N.eqb v u then option_map (upd_modes up) (smode s v) else smode s v.
Proof.
  intros NZ. unfold smode, ad_subs_update. destruct (N.eqb_spec u 0) as [E|_]; [contradiction|].
  cbn [subs st_subs]. rewrite find_sub_upd by (intros ? HH; exact HH).
  destruct (N.eqb v u); [|reflexivity]. destruct (find_sub v (subs s)); reflexivity.
Qed.
Lemma smode_subs_update_marks s u up v : u_want up = None -> u_given up = None ->
  smode (ad_subs_update s u up) v = smode s v.
Proof.
  intros E1 E2. unfold smode, ad_subs_update. destruct (u =? 0); cbn [subs st_subs].
  - rewrite find_sub_map by reflexivity. destruct (find_sub v (subs s)) as [r|]; [|reflexivity].
    cbn. unfold apply_upd. rewrite E1, E2. reflexivity.
  - rewrite find_sub_upd by (intros ? HH; exact HH). destruct (N.eqb v u); [|reflexivity].
    destruct (find_sub v (subs s)) as [r|]; [|reflexivity]. cbn. rewrite E1, E2. reflexivity.
Qed.
Lemma owner_subs_update s u up : t_owner (ad_subs_update s u up) = t_owner s.
Proof. unfold ad_subs_update. now destruct (u =? 0). Qed.
Lemma users_subs_update s u up : sub_users (ad_subs_update s u up) = sub_users s.
Proof.
  unfold sub_users, ad_subs_update. destruct (u =? 0); cbn [subs st_subs].
  - rewrite map_map. reflexivity.
  - apply users_upd_sub. intros ? HH; exact HH.
Qed.

Definition del_mode (m : N * N * bool) : N * N * bool := (fst (fst m), snd (fst m), true).
Lemma subs_delete_some s u s' : ad_subs_delete s u = Some s' ->
  (exists w g, smode s u = Some (w, g, false)) /\
  (forall v, smode s' v = if N.eqb v u then option_map del_mode (smode s v) else smode s v) /\
  t_owner s' = t_owner s /\ sub_users s' = sub_users s.
Proof.
  unfold ad_subs_delete, ad_sub_get, smode. destruct (find_sub u (subs s)) as [r|] eqn:F; [|discriminate].
  destruct (s_deleted r) eqn:D; cbn; [discriminate|]. intros H. inv H. split; [|split; [|split]].
  - eexists _, _. reflexivity.
  - intros v. cbn [subs st_subs st_dellog]. rewrite find_sub_upd by (intros ? HH; exact HH).
    destruct (N.eqb v u); [|reflexivity]. destruct (find_sub v (subs s)); reflexivity.
  - reflexivity.
  - unfold sub_users. cbn [subs st_subs st_dellog]. apply users_upd_sub. intros ? HH; exact HH.
Qed.
Lemma subs_delete_none s u : ad_subs_delete s u = None ->
  match smode s u with Some (_, _, false) => False | _ => True end.
Proof.
  unfold ad_subs_delete, ad_sub_get, smode. destruct (find_sub u (subs s)) as [r|]; [|trivial].
  destruct (s_deleted r); cbn; [trivial|discriminate].
Qed.

Lemma subs_delete_list s d fu rs : subs (ad_msg_delete_list s d fu rs) = subs s.
Proof. unfold ad_msg_delete_list. destruct (fu =? 0); reflexivity. Qed.
Lemma owner_delete_list s d fu rs : t_owner (ad_msg_delete_list s d fu rs) = t_owner s.
Proof. unfold ad_msg_delete_list. destruct (fu =? 0); reflexivity. Qed.
Lemma msg_save_subs s seq u ct s' : ad_msg_save s seq u ct = Some s' -> subs s' = subs s /\ t_owner s' = t_owner s.
Proof. unfold ad_msg_save. destruct (existsb _ _); intros H; inv H. split; reflexivity. Qed.

(* ---------- cache primitives ---------- *)
Lemma alookup_aremove_eq {A} (k k' : N) (l : list (N * A)) :
  alookup k' (aremove k l) = if N.eqb k' k then None else alookup k' l.
Proof.
  induction l as [|[k0 v0] l IH]; cbn; [now destruct (N.eqb k' k)|].
  destruct (N.eqb_spec k k0) as [<-|NE]; cbn.
  - rewrite IH. destruct (N.eqb_spec k' k); reflexivity.
  - rewrite IH. destruct (N.eqb_spec k' k0) as [->|NE2]; [|reflexivity].
    destruct (N.eqb_spec k0 k); [congruence|reflexivity].
Qed.
Lemma keys_aset {A} (k : N) (v : A) l : NoDup (map fst l) -> NoDup (map fst (aset k v l)).
Proof.
  induction l as [|[k0 v0] l IH]; cbn; intros ND.
  - constructor; [intros []|constructor].
  - inversion ND as [|? ? Ha Hl]; subst. destruct (N.eqb_spec k k0) as [<-|NE]; cbn.
    + constructor; assumption.
    + constructor; [|now apply IH]. intros Hin. apply Ha. clear - Hin NE.
      induction l as [|[k1 v1] l IH]; cbn in *.
      * destruct Hin as [E|[]]. congruence.
      * destruct (N.eqb_spec k k1) as [<-|NE1]; cbn in Hin.
        -- destruct Hin as [E|Hin]; [congruence|now right].
        -- destruct Hin as [E|Hin]; [now left|right; now apply IH].
Qed.
Lemma keys_aremove {A} (k : N) (l : list (N * A)) : NoDup (map fst l) -> NoDup (map fst (aremove k l)).
Proof.
  induction l as [|[k0 v0] l IH]; cbn; intros ND; [constructor|].
  inversion ND as [|? ? Ha Hl]; subst. destruct (N.eqb k k0); cbn; [now apply IH|].
  constructor; [|now apply IH]. intros Hin. apply Ha. clear - Hin.
  induction l as [|[k1 v1] l IH]; cbn in *; [exact Hin|].
  destruct (N.eqb k k1); cbn in Hin; [right; now apply IH|].
  destruct Hin as [E|Hin]; [now left|right; now apply IH].
Qed.
Lemma alookup_in {A} (k : N) (v : A) l : alookup k l = Some v -> In (k, v) l.
Proof.
  induction l as [|[k0 v0] l IH]; cbn; [discriminate|].
  destruct (N.eqb_spec k k0) as [->|NE]; intros H; [inv H; now left|right; now apply IH].
Qed.
Lemma in_alookup {A} (k : N) (v : A) l : NoDup (map fst l) -> In (k, v) l -> alookup k l = Some v.
Proof.
  induction l as [|[k0 v0] l IH]; cbn; [tauto|]. intros ND [E|Hin].
  - inv E. now rewrite N.eqb_refl.
  - inversion ND as [|? ? Ha Hl]; subst. destruct (N.eqb_spec k k0) as [->|NE]; [|now apply IH].
    exfalso. apply Ha. change k0 with (fst (k0, v)). now apply in_map.
Qed.
Lemma in_aset {A} (k : N) (v : A) l e : In e (aset k v l) -> e = (k, v) \/ In e l.
Proof.
  induction l as [|[k0 v0] l IH]; cbn.
  - intros [E|[]]. now left.
  - destruct (N.eqb k k0); cbn; intros [E|Hin]; auto. destruct (IH Hin); auto.
Qed.
Lemma in_aremove {A} (k : N) (l : list (N * A)) e : In e (aremove k l) -> In e l.
Proof.
  induction l as [|[k0 v0] l IH]; cbn; [tauto|].
  destruct (N.eqb k k0); cbn; [auto|]. intros [E|Hin]; auto.
Qed.

Lemma cmode_aset c u p v :
  cmode (c_set_users (aset u p) c) v = if N.eqb v u then Some (p_want p, p_given p) else cmode c v.
Proof. unfold cmode. cbn [c_users c_set_users]. rewrite alookup_aset. now destruct (N.eqb v u). Qed.
Lemma cmode_aremove c u v :
  cmode (c_set_users (aremove u) c) v = if N.eqb v u then None else cmode c v.
Proof. unfold cmode. cbn [c_users c_set_users]. rewrite alookup_aremove_eq. now destruct (N.eqb v u). Qed.
Lemma cmode_map_delid c d v :
  cmode (c_set_users (map (fun e => (fst e, p_set_delid d (snd e)))) c) v = cmode c v.
Proof. unfold cmode. cbn [c_users c_set_users]. rewrite alookup_map. now destruct (alookup v (c_users c)). Qed.
Lemma cmode_cached c u : cmode c u <> None <-> alookup u (c_users c) <> None.
Proof. unfold cmode. destruct (alookup u (c_users c)); split; congruence. Qed.

Lemma evict_cmode c u unsub k c' o v : evict_user c u unsub k = (c', o) ->
  cmode c' v = if unsub && N.eqb v u then None else cmode c v.
Proof.
  unfold evict_user. intros H. inv H. destruct unsub; cbn [andb].
  - rewrite cmode_aremove. reflexivity.
  - cbn [c_users c_set_sess]. destruct (alookup u (c_users c)) as [p|] eqn:E; [|reflexivity].
    rewrite cmode_aset. unfold cmode at 2. cbn [c_users c_set_sess]. destruct (N.eqb_spec v u) as [->|]; [|reflexivity].
    unfold cmode. cbn [c_users c_set_sess]. rewrite E. reflexivity.
Qed.
Lemma evict_misc c u unsub k c' o : evict_user c u unsub k = (c', o) ->
  c_owner c' = c_owner c /\ (NoDup (map fst (c_users c)) -> NoDup (map fst (c_users c'))) /\
  (forall e, In e (c_sess c') -> In e (c_sess c) /\ fst (snd e) <> u).
Proof.
  unfold evict_user. intros H. inv H.
  assert (forall e, In e (filter (fun e => negb (N.eqb (fst (snd e)) u)) (c_sess c)) -> In e (c_sess c) /\ fst (snd e) <> u) as S.
  { intros e Hin. apply filter_In in Hin. destruct Hin as [H1 H2]. split; [exact H1|].
    apply negb_true_iff in H2. now apply N.eqb_neq in H2. }
  destruct unsub.
  - split; [reflexivity|]. split; [|exact S]. cbn [c_users c_set_users c_set_sess]. apply keys_aremove.
  - cbn [c_users c_set_sess]. destruct (alookup u (c_users c)); (split; [reflexivity|]); (split; [|exact S]); cbn [c_users c_set_users c_set_sess]; auto.
    apply keys_aset.
Qed.

(* loadSubscribers *)
Lemma load_users_spec rows : NoDup (map s_user rows) -> forall acc,
  (forall k, In k (map s_user rows) -> alookup k acc = None) -> NoDup (map fst acc) ->
  let l := fold_left (fun acc r => if s_deleted r then acc
             else aset (s_user r) (mkPud (s_want r) (s_given r) (s_read r) (s_recv r) (s_delid r) 0%Z) acc) rows acc in
  NoDup (map fst l) /\
  forall v, alookup v l = match find_sub v rows with
                          | Some r => if s_deleted r then None else Some (mkPud (s_want r) (s_given r) (s_read r) (s_recv r) (s_delid r) 0%Z)
                          | None => alookup v acc
                          end.
Proof.
  induction rows as [|a rows IH]; intros ND acc Hacc NDa; cbn zeta.
  - cbn. split; [exact NDa|reflexivity].
  - inversion ND as [|? ? Ha Hl]; subst. cbn [fold_left].
    set (acc' := if s_deleted a then acc else aset (s_user a) (mkPud (s_want a) (s_given a) (s_read a) (s_recv a) (s_delid a) 0%Z) acc).
    assert (NoDup (map fst acc')) as ND' by (unfold acc'; destruct (s_deleted a); [exact NDa|now apply keys_aset]).
    assert (forall k, In k (map s_user rows) -> alookup k acc' = None) as Hacc'.
    { intros k Hk. unfold acc'. destruct (s_deleted a); [apply Hacc; now right|].
      rewrite alookup_aset. destruct (N.eqb_spec k (s_user a)) as [->|NE]; [contradiction|apply Hacc; now right]. }
    destruct (IH Hl acc' Hacc' ND') as [R1 R2]. split; [exact R1|]. intros v. rewrite R2.
    unfold find_sub. cbn [find]. fold (find_sub v rows).
    destruct (N.eqb_spec (s_user a) v) as [E|NE].
    + destruct (find_sub v rows) as [r|] eqn:F.
      * exfalso. apply Ha. rewrite E. apply find_sub_user in F as F'. rewrite <- F'. apply in_map. now apply find_sub_in in F.
      * unfold acc'. destruct (s_deleted a); [apply Hacc; now left|]. rewrite alookup_aset, <- E, N.eqb_refl. reflexivity.
    + destruct (find_sub v rows); [reflexivity|]. unfold acc'. destruct (s_deleted a); [reflexivity|].
      rewrite alookup_aset. destruct (N.eqb_spec v (s_user a)); [congruence|reflexivity].
Qed.
Lemma load_cmode s v : NoDup (sub_users s) ->
  cmode (load s) v = match smode s v with Some (w, g, false) => Some (w, g) | _ => None end.
Proof.
  intros ND. unfold cmode, smode, load, load_users. cbn [c_users].
  destruct (load_users_spec (subs s) ND [] (fun _ _ => eq_refl) (NoDup_nil _)) as [_ R]. cbn zeta in R. rewrite R.
  destruct (find_sub v (subs s)) as [r|]; [|reflexivity]. destruct (s_deleted r); reflexivity.
Qed.
Lemma load_keys s : NoDup (sub_users s) -> NoDup (map fst (c_users (load s))).
Proof.
  intros ND. unfold load, load_users. cbn [c_users].
  destruct (load_users_spec (subs s) ND [] (fun _ _ => eq_refl) (NoDup_nil _)) as [R _]. exact R.
Qed.

(* ------------------------------------------------------------------ *)
(* the ownership invariant                                              *)
Definition spoint (o v : N) (m : option (N * N * bool)) : Prop :=
  match m with
  | Some (w, g, d) => if N.eqb v o then d = false /\ is_owner w = true /\ is_owner g = true else is_owner w = false
  | None => v <> o
  end.
Definition cpoint (m : option (N * N * bool)) (cm : option (N * N)) : Prop :=
  match cm with
  | Some (w, g) => exists w', m = Some (w', g, false) /\ is_owner w' = is_owner w
  | None => match m with Some (_, _, false) => False | _ => True end
  end.

Record sinv (s : store) : Prop := mkSinv {
  si_owner0 : t_owner s <> 0;
  si_auth : is_owner (t_auth s) = false;
  si_users : forall u acc, alookup u (users s) = Some acc -> is_owner acc = false;
  si_nodup : NoDup (sub_users s);
  si_point : forall v, spoint (t_owner s) v (smode s v) }.

Record cinv (sm : sessmap) (s : store) (c : cache) : Prop := mkCinv {
  ci_owner : c_owner c = t_owner s;
  ci_auth : c_auth c = t_auth s;
  ci_nodup : NoDup (map fst (c_users c));
  ci_point : forall v, cpoint (smode s v) (cmode c v);
  ci_sess : forall sid su b, In (sid, (su, b)) (c_sess c) -> su = sess_uid sm sid /\ cmode c su <> None }.

Definition oinv (sm : sessmap) (s : store) (c : cache) : Prop := sinv s /\ cinv sm s c.
Definition oinv_state (sm : sessmap) (x : state) : Prop :=
  match ca x with Some c => oinv sm (st x) c | None => sinv (st x) end.

(* the effective owners, as lists *)
Definition eff_owner_row (r : subrow) : bool := negb (s_deleted r) && is_owner (N.land (s_want r) (s_given r)).
Definition store_owners (s : store) : list N := map s_user (filter eff_owner_row (subs s)).
Definition cache_owners (c : cache) : list N := map fst (filter (fun e => is_owner (pud_mode (snd e))) (c_users c)).

Lemma filter_none {A} (p : A -> bool) l : (forall b, In b l -> p b = false) -> filter p l = [].
Proof.
  induction l as [|b l IH]; intros H; [reflexivity|]. cbn [filter]. rewrite (H b (or_introl eq_refl)).
  apply IH. intros b0 Hb0. apply H. now right.
Qed.
Lemma one_owner_list {A} (key : A -> N) (p : A -> bool) (l : list A) (o : N) :
  NoDup (map key l) -> (forall a, In a l -> p a = true -> key a = o) -> (exists a, In a l /\ key a = o /\ p a = true) ->
  map key (filter p l) = [o].
Proof.
  induction l as [|a l IH]; intros ND H1 [x [Hin [Hk Hp]]]; [destruct Hin|].
  inversion ND as [|? ? Ha Hl]. cbn [filter].
  destruct Hin as [E|Hin].
  - rewrite E, Hp. cbn [map]. rewrite Hk. f_equal.
    rewrite filter_none; [reflexivity|]. intros b Hb. destruct (p b) eqn:Pb; [|reflexivity].
    exfalso. apply Ha. rewrite E, Hk, <- (H1 b (or_intror Hb) Pb). now apply in_map.
  - destruct (p a) eqn:Pa.
    + exfalso. apply Ha. rewrite (H1 a (or_introl eq_refl) Pa), <- Hk. now apply in_map.
    + apply IH; [exact Hl|intros b Hb; apply H1; now right|]. exists x. auto.
Qed.

Lemma sinv_store_owners s : sinv s -> store_owners s = [t_owner s].
Proof.
  intros [_ _ _ ND P]. unfold store_owners. apply one_owner_list; [exact ND| |].
  - intros r Hin E. unfold eff_owner_row in E. apply andb_true_iff in E. destruct E as [E1 E2].
    rewrite is_owner_land in E2. apply andb_true_iff in E2. destruct E2 as [E2 _].
    specialize (P (s_user r)). unfold smode in P. rewrite (find_sub_nodup _ _ ND Hin) in P. cbn in P.
    destruct (N.eqb_spec (s_user r) (t_owner s)); [assumption|congruence].
  - specialize (P (t_owner s)). unfold smode in P. destruct (find_sub (t_owner s) (subs s)) as [r|] eqn:F; cbn in P; [|congruence].
    rewrite N.eqb_refl in P. destruct P as [D [W G]]. exists r. split; [now apply find_sub_in in F|].
    split; [now apply find_sub_user in F|]. unfold eff_owner_row. rewrite D, is_owner_land, W, G. reflexivity.
Qed.

Lemma oinv_cache_owners sm s c : oinv sm s c -> cache_owners c = [c_owner c].
Proof.
  intros [[_ _ _ _ P] [O _ ND CP _]]. unfold cache_owners. apply one_owner_list; [exact ND| |].
  - intros [u p] Hin E. cbn [fst snd] in *. rewrite pud_mode_owner in E. apply andb_true_iff in E. destruct E as [E1 E2].
    specialize (CP u). unfold cmode in CP. rewrite (in_alookup _ _ _ ND Hin) in CP. destruct CP as [w' [M EW]].
    specialize (P u). rewrite M in P. cbn in P. rewrite O. destruct (N.eqb_spec u (t_owner s)); [assumption|congruence].
  - specialize (P (t_owner s)). specialize (CP (t_owner s)).
    destruct (smode s (t_owner s)) as [[[w g] d]|] eqn:M; cbn in P; [|congruence].
    rewrite N.eqb_refl in P. destruct P as [-> [W G]]. unfold cmode in CP.
    destruct (alookup (t_owner s) (c_users c)) as [p|] eqn:A; [|destruct CP].
    destruct CP as [w' [M' EW]]. inv M'. exists (t_owner s, p). split; [now apply alookup_in|].
    split; [now rewrite O|]. cbn [snd]. rewrite pud_mode_owner, <- EW, W, G. reflexivity.
Qed.

(* the store part alone supports unload / restart / crash, and loading *)
Lemma load_owner_spec rows o : NoDup (map s_user rows) ->
  (forall r, In r rows -> eff_owner_row r = true -> s_user r = o) ->
  forall o0, (o0 = o \/ exists r, In r rows /\ s_user r = o /\ eff_owner_row r = true) ->
  fold_left (fun o r => if negb (s_deleted r) && is_owner (N.land (s_given r) (s_want r)) then s_user r else o) rows o0 = o.
Proof.
  induction rows as [|a rows IH]; intros ND H1 o0 H0; cbn [fold_left].
  - destruct H0 as [H0|[r [[] _]]]. exact H0.
  - inversion ND as [|? ? Ha Hl]; subst. apply IH; [exact Hl|intros r Hr; apply H1; now right|].
    assert (eff_owner_row a = negb (s_deleted a) && is_owner (N.land (s_given a) (s_want a))) as EA
      by (unfold eff_owner_row; now rewrite N.land_comm).
    rewrite <- EA. destruct (eff_owner_row a) eqn:PA.
    + left. apply H1; [now left|exact PA].
    + destruct H0 as [H0|[r [[->|Hin] [Hk Hp]]]]; [now left|congruence|].
      right. exists r. auto.
Qed.

Lemma sinv_load sm s : sinv s -> oinv sm s (load s).
Proof.
  intros SI. split; [exact SI|]. destruct SI as [O0 AU US ND P]. constructor.
  - unfold load, load_owner. cbn [c_owner]. apply load_owner_spec; [exact ND| |].
    + intros r Hin E. pose proof (sinv_store_owners s (mkSinv s O0 AU US ND P)) as SO. unfold store_owners in SO.
      assert (In (s_user r) (map s_user (filter eff_owner_row (subs s)))) as X by (apply in_map; apply filter_In; auto).
      rewrite SO in X. destruct X as [X|[]]. now symmetry.
    + right. specialize (P (t_owner s)). unfold smode in P. destruct (find_sub (t_owner s) (subs s)) as [r|] eqn:F; cbn in P; [|congruence].
      rewrite N.eqb_refl in P. destruct P as [D [W G]]. exists r. split; [now apply find_sub_in in F|].
      split; [now apply find_sub_user in F|]. unfold eff_owner_row. rewrite D, is_owner_land, W, G. reflexivity.
  - reflexivity.
  - now apply load_keys.
  - intros v. rewrite load_cmode by exact ND. destruct (smode s v) as [[[w g] [|]]|]; cbn; auto.
    exists w. auto.
  - intros sid su b [].
Qed.
