(* C13  Proofs about coq/Sys/EvictStoreC13.v: a cached session has an empty stop channel, hence
   SessionStore.EvictUser never waits on a full stop channel. *)
From Coq Require Import List NArith Bool.
Import ListNotations.
Require Import Tinode.Sys.EvictStoreC13.

(* ---------- upd / find_sess ---------- *)
Lemma upd_inv (sid : N) (f : sess -> sess) (l : list sess) :
  forallb sess_ok l = true ->
  (forall s, sess_ok s = true -> sess_ok (f s) = true) ->
  forallb sess_ok (upd sid f l) = true.
Proof.
  intros H Hf. induction l as [|s r IH]; [reflexivity|].
  cbn [forallb] in H. apply andb_true_iff in H. destruct H as [H1 H2].
  cbn [upd]. destruct (N.eqb (s_sid s) sid); cbn [forallb]; apply andb_true_iff; split; auto.
Qed.

Lemma find_upd (sid : N) (f : sess -> sess) (l : list sess) :
  (forall s, s_sid (f s) = s_sid s) ->
  find_sess sid (upd sid f l) = option_map f (find_sess sid l).
Proof.
  intros Hf. induction l as [|s r IH]; [reflexivity|].
  cbn [upd find_sess]. destruct (N.eqb (s_sid s) sid) eqn:E.
  - cbn [find_sess]. rewrite Hf, E. reflexivity.
  - cbn [find_sess]. rewrite E. exact IH.
Qed.

Lemma upd_upd (sid : N) (f g : sess -> sess) (l : list sess) :
  (forall s, s_sid (f s) = s_sid s) ->
  upd sid g (upd sid f l) = upd sid (fun s => g (f s)) l.
Proof.
  intros Hf. induction l as [|s r IH]; [reflexivity|].
  cbn [upd]. destruct (N.eqb (s_sid s) sid) eqn:E.
  - cbn [upd]. rewrite Hf, E. reflexivity.
  - cbn [upd]. rewrite E, IH. reflexivity.
Qed.

Lemma upd_none (sid : N) (f : sess -> sess) (l : list sess) :
  find_sess sid l = None -> upd sid f l = l.
Proof.
  induction l as [|s r IH]; [reflexivity|].
  cbn [find_sess upd]. destruct (N.eqb (s_sid s) sid); [discriminate|].
  intro H. rewrite (IH H). reflexivity.
Qed.

Lemma sess_ok_uncached (s : sess) : sess_ok (set_uncached s) = true.
Proof. reflexivity. Qed.

Lemma sess_ok_unstop (s : sess) : sess_ok (set_stop false s) = true.
Proof. unfold sess_ok. cbn. apply orb_true_r. Qed.

Lemma sess_ok_login (u : N) (r : bool) (s : sess) : sess_ok s = true -> sess_ok (set_login u r s) = true.
Proof. intro H. exact H. Qed.

(* a stop notice put on a session that is not cached keeps the invariant *)
Lemma sess_ok_stop_uncached (s : sess) : sess_ok (set_uncached (set_stop true s)) = true.
Proof. reflexivity. Qed.

Lemma store_delete_inv (sid : N) (st : store) : store_inv st = true -> store_inv (store_delete sid st) = true.
Proof.
  unfold store_inv, store_delete. cbn [sessions]. intro H.
  apply upd_inv; [exact H|]. intros s _. apply sess_ok_uncached.
Qed.

(* ---------- EvictUser ---------- *)
Lemma evict_match_cached (uid skip : N) (s : sess) : evict_match uid skip s = true -> s_cached s = true.
Proof.
  unfold evict_match. intro H.
  apply andb_true_iff in H. destruct H as [H _].
  apply andb_true_iff in H. destruct H as [H _].
  apply andb_true_iff in H. destruct H as [H _]. exact H.
Qed.

Lemma evict_loop_inv (uid skip : N) (l : list sess) :
  forallb sess_ok l = true ->
  exists l1, evict_loop false uid skip l = inr l1 /\ forallb sess_ok l1 = true.
Proof.
  induction l as [|s r IH]; intro H.
  - exists []. split; reflexivity.
  - cbn [forallb] in H. apply andb_true_iff in H. destruct H as [H1 H2].
    destruct (IH H2) as [r1 [E1 I1]].
    cbn [evict_loop]. destruct (evict_match uid skip s) eqn:M.
    + pose proof (evict_match_cached _ _ _ M) as C.
      unfold sess_ok in H1. rewrite C in H1. cbn [negb orb] in H1.
      apply negb_true_iff in H1.
      unfold stop_session. rewrite H1, E1.
      eexists. split; [reflexivity|].
      cbn [forallb]. rewrite I1. rewrite sess_ok_uncached. reflexivity.
    + rewrite E1. eexists. split; [reflexivity|].
      cbn [forallb]. rewrite H1, I1. reflexivity.
Qed.

Lemma evict_user_inv (uid skip : N) (st : store) :
  store_inv st = true ->
  exists st1, evict_user false uid skip st = Ok st1 /\ store_inv st1 = true.
Proof.
  intro H. unfold evict_user.
  destruct (evict_loop_inv uid skip (sessions st) H) as [l1 [E I]].
  rewrite E. eexists. split; [reflexivity|exact I].
Qed.

(* ---------- the write loop takes the notice ---------- *)
Lemma take_stop_inv (sid : N) (st : store) : store_inv st = true -> store_inv (take_stop sid st) = true.
Proof.
  intro H. unfold take_stop.
  destruct (find_sess sid (sessions st)) as [s|]; [|exact H].
  destruct (s_stopfull s); [|exact H].
  assert (H1 : store_inv (with_sessions st (upd sid (set_stop false) (sessions st))) = true).
  { unfold store_inv, with_sessions. cbn [sessions]. apply upd_inv; [exact H|]. intros x _. apply sess_ok_unstop. }
  destruct (is_lp (s_proto s)); [apply store_delete_inv|]; exact H1.
Qed.

(* a notice put on the session and taken at once *)
Lemma stop_then_take_inv (sid : N) (st : store) :
  store_inv st = true ->
  store_inv (take_stop sid (with_sessions st (upd sid (set_stop true) (sessions st)))) = true.
Proof.
  intro H. unfold take_stop, with_sessions. cbn [sessions lru users].
  rewrite find_upd by reflexivity.
  destruct (find_sess sid (sessions st)) as [s|] eqn:F; cbn [option_map].
  - cbn [set_stop s_stopfull s_proto].
    rewrite upd_upd by reflexivity.
    assert (H1 : forallb sess_ok (upd sid (fun s0 => set_stop false (set_stop true s0)) (sessions st)) = true).
    { apply upd_inv; [exact H|]. intros x _. apply sess_ok_unstop. }
    destruct (is_lp (s_proto s)).
    + apply store_delete_inv. exact H1.
    + exact H1.
  - rewrite upd_none by exact F. exact H.
Qed.

(* ---------- the requester's own notice ---------- *)
Lemma stop_self_inv (sid : N) (st : store) :
  store_inv st = true ->
  match stop_self sid true st with
  | Ok st1 => store_inv st1 = true
  | Blocks BEvict _ => False
  | _ => True
  end.
Proof.
  intro H. unfold stop_self.
  destruct (find_sess sid (sessions st)) as [s|]; [|exact H].
  destruct (stop_session s); [|exact I].
  apply stop_then_take_inv. exact H.
Qed.

Lemma with_users_inv (st : store) (us : list (N * ustate)) :
  store_inv st = true -> store_inv (mkStore (sessions st) (lru st) us) = true.
Proof. intro H. exact H. Qed.

(* ---------- NewSession ---------- *)
Lemma uncache_all_inv (xs : list N) (l : list sess) :
  forallb sess_ok l = true -> forallb sess_ok (uncache_all xs l) = true.
Proof.
  revert l. induction xs as [|x r IH]; intros l H; [exact H|].
  cbn [uncache_all]. apply IH. apply upd_inv; [exact H|]. intros s _. apply sess_ok_uncached.
Qed.

(* cleanUp(true) of an expired session never waits (it has just purged the channel); it may leave a notice on a
   session that is still cached ONLY if the session is cached, which the expiry loop has excluded: the invariant is
   kept for the sessions that were uncached *)
Definition all_uncached (xs : list N) (l : list sess) : bool :=
  forallb (fun x => match find_sess x l with Some s => negb (s_cached s) | None => true end) xs.

Lemma cleanup_expired_ok (x : N) (l : list sess) :
  exists l1, cleanup_expired x l = inr l1.
Proof.
  unfold cleanup_expired. destruct (find_sess x l); eexists; reflexivity.
Qed.

Lemma sess_ok_stop_if_uncached (s : sess) :
  s_cached s = false -> sess_ok (set_stop true (set_stop false s)) = true.
Proof. intro H. unfold sess_ok. cbn. rewrite H. reflexivity. Qed.

(* upd with a function that keeps the invariant on uncached sessions, applied to an uncached session *)
Lemma upd_inv_uncached (sid : N) (f : sess -> sess) (l : list sess) :
  forallb sess_ok l = true ->
  (forall s, s_cached s = false -> sess_ok (f s) = true) ->
  (match find_sess sid l with Some s => s_cached s = false | None => True end) ->
  forallb sess_ok (upd sid f l) = true.
Proof.
  intros H Hf. induction l as [|s r IH]; [reflexivity|].
  cbn [forallb] in H. apply andb_true_iff in H. destruct H as [H1 H2].
  cbn [upd find_sess]. destruct (N.eqb (s_sid s) sid); intro C; cbn [forallb]; apply andb_true_iff; split; auto.
Qed.

Lemma find_upd_gen (x y : N) (f : sess -> sess) (l : list sess) :
  (forall s, s_sid (f s) = s_sid s) ->
  find_sess x (upd y f l) = if N.eqb x y then option_map f (find_sess x l) else find_sess x l.
Proof.
  intro Hf. destruct (N.eqb x y) eqn:E.
  - apply N.eqb_eq in E. subst y. apply find_upd. exact Hf.
  - induction l as [|s r IH]; [reflexivity|].
    cbn [upd find_sess]. destruct (N.eqb (s_sid s) y) eqn:E1.
    + cbn [find_sess]. rewrite Hf.
      apply N.eqb_eq in E1. rewrite E1. rewrite N.eqb_sym, E. reflexivity.
    + cbn [find_sess]. destruct (N.eqb (s_sid s) x); [reflexivity|exact IH].
Qed.

Definition unc (x : N) (l : list sess) : Prop :=
  match find_sess x l with Some s => s_cached s = false | None => True end.

Lemma unc_upd (x y : N) (f : sess -> sess) (l : list sess) :
  (forall s, s_sid (f s) = s_sid s) ->
  (forall s, s_cached s = false -> s_cached (f s) = false) ->
  unc x l -> unc x (upd y f l).
Proof.
  intros Hf Hc H. unfold unc in *. rewrite find_upd_gen by exact Hf.
  destruct (N.eqb x y); [|exact H].
  destruct (find_sess x l); cbn [option_map]; auto.
Qed.

Lemma unc_uncache_all (x : N) (xs : list N) (l : list sess) : unc x l -> unc x (uncache_all xs l).
Proof.
  revert l. induction xs as [|y r IH]; intros l H; [exact H|].
  cbn [uncache_all]. apply IH. apply unc_upd; auto.
Qed.

Lemma uncache_all_unc (xs : list N) (l : list sess) : forall x, In x xs -> unc x (uncache_all xs l).
Proof.
  revert l. induction xs as [|y r IH]; intros l x Hx; [destruct Hx|].
  cbn [uncache_all]. destruct Hx as [->|Hx].
  - apply unc_uncache_all. unfold unc. rewrite find_upd by reflexivity.
    destruct (find_sess x l); cbn [option_map]; auto.
  - apply IH. exact Hx.
Qed.

Lemma cleanup_all_inv (xs : list N) (l : list sess) :
  forallb sess_ok l = true ->
  (forall x, In x xs -> unc x l) ->
  exists l1, cleanup_all xs l = inr l1 /\ forallb sess_ok l1 = true.
Proof.
  revert l. induction xs as [|x r IH]; intros l H U.
  - exists l. split; [reflexivity|exact H].
  - cbn [cleanup_all]. unfold cleanup_expired.
    pose proof (U x (or_introl eq_refl)) as Ux. unfold unc in Ux.
    destruct (find_sess x l) as [s|] eqn:F.
    + cbn [stop_session set_stop s_stopfull].
      apply IH.
      * apply upd_inv_uncached; [exact H| |rewrite F; exact Ux].
        intros s0 C. apply sess_ok_stop_if_uncached. exact C.
      * intros y Hy. apply unc_upd; auto. apply U. right. exact Hy.
    + apply IH; [exact H|]. intros y Hy. apply U. right. exact Hy.
Qed.

Lemma new_session_inv (sid : N) (p : proto) (expired : list N) (st : store) :
  store_inv st = true ->
  match new_session sid p expired st with
  | Ok st1 => store_inv st1 = true
  | Blocks _ _ => False
  | Fatal _ => True
  end.
Proof.
  intro H. unfold new_session.
  destruct (find_sess sid (sessions st)); [exact I|].
  destruct (negb (is_suffix_rev expired (lru st))); [exact H|].
  set (s := mkSess sid 0 false p true (is_lp p) false).
  assert (H0 : forallb sess_ok (s :: sessions st) = true).
  { cbn [forallb]. unfold store_inv in H. rewrite H. reflexivity. }
  destruct (cleanup_all_inv expired (uncache_all expired (s :: sessions st))
              (uncache_all_inv _ _ H0) (uncache_all_unc _ _)) as [l1 [E I1]].
  rewrite E. exact I1.
Qed.

(* ---------- the request handlers ---------- *)
Definition step_good (o : outcome) : Prop :=
  match o with
  | Ok st1 => store_inv st1 = true
  | Blocks BEvict _ => False
  | _ => True
  end.

Lemma acc_state_inv (rsid target : N) (a : accstate) (sok : bool) (st : store) :
  store_inv st = true -> step_good (acc_state false rsid target a sok st).
Proof.
  intro H. unfold acc_state.
  destruct (find_sess rsid (sessions st)) as [r|]; [|exact H].
  destruct (N.eqb (s_uid r) 0); [exact H|].
  destruct (negb (N.eqb (if N.eqb target 0 then s_uid r else target) (s_uid r)) && negb (s_root r)); [exact H|].
  destruct (negb (s_root r)); [exact H|].
  destruct (get_user _ (users st)) as [cur|]; [|exact H].
  destruct a as [ns|]; [|exact H].
  destruct (evict_user_inv (if N.eqb target 0 then s_uid r else target) 0 st H) as [st1 [E I1]].
  destruct ns, cur; cbn [ustate_eqb]; try exact H; try rewrite E; destruct sok; first [exact H | exact I1].
Qed.

Lemma del_user_req_inv (rsid target : N) (sok : bool) (st : store) :
  store_inv st = true -> step_good (del_user_req false rsid target sok true st).
Proof.
  intro H. unfold del_user_req.
  destruct (find_sess rsid (sessions st)) as [r|]; [|exact H].
  destruct (N.eqb (s_uid r) 0); [exact H|].
  destruct (negb (N.eqb target 0 || N.eqb target (s_uid r)) && negb (s_root r)); [exact H|].
  set (uid := if N.eqb target 0 || N.eqb target (s_uid r) then s_uid r else target).
  destruct (evict_user_inv uid rsid st H) as [st1 [E I1]].
  rewrite E. destruct sok; cbn [negb]; [|exact I1].
  destruct (N.eqb (s_uid r) uid).
  - pose proof (stop_self_inv rsid (mkStore (sessions st1) (lru st1) (del_user uid (users st1))) I1) as S.
    unfold step_good. destruct (stop_self rsid true _) as [st2|b x|x]; [exact S| |exact I].
    destruct b; auto.
  - exact I1.
Qed.

Lemma step_inv (l : label) (st : store) :
  prompt_label l = true -> store_inv st = true -> step_good (step false l st).
Proof.
  intros P H. destruct l; cbn [step prompt_label] in *.
  - pose proof (new_session_inv sid p expired st H) as S.
    unfold step_good. destruct (new_session sid p expired st) as [st1|b x|x]; [exact S|destruct S|exact I].
  - unfold step_good, store_inv, with_sessions. cbn [sessions].
    apply upd_inv; [exact H|]. intros s Hs. exact Hs.
  - unfold step_good, store_get.
    destruct (find_sess sid (sessions st)) as [s|]; [|exact H].
    destruct (s_cached s && is_lp (s_proto s)); exact H.
  - apply store_delete_inv. exact H.
  - destruct (evict_user_inv uid skip st H) as [st1 [E I1]]. rewrite E. exact I1.
  - apply take_stop_inv. exact H.
  - subst taken. pose proof (stop_self_inv sid st H) as S.
    unfold step_good. destruct (stop_self sid true st) as [st1|b x|x]; [exact S| |exact I].
    destruct b; auto.
  - unfold step_good, store_inv, with_sessions. cbn [sessions].
    apply upd_inv; [exact H|]. intros s _. apply sess_ok_unstop.
  - pose proof (store_delete_inv sid st H) as H1.
    destruct (find_sess sid (sessions (store_delete sid st))) as [s|] eqn:F; [|exact H].
    unfold stop_session. destruct (s_stopfull s) eqn:SF; [exact I|].
    unfold step_good, store_inv, with_sessions. cbn [sessions].
    apply upd_inv_uncached; [exact H1| |].
    + intros s0 C. unfold sess_ok. cbn. rewrite C. reflexivity.
    + rewrite F. revert F. unfold store_delete. cbn [sessions].
      rewrite find_upd by reflexivity.
      destruct (find_sess sid (sessions st)); cbn [option_map]; [|discriminate].
      intro F. injection F as <-. reflexivity.
  - apply acc_state_inv. exact H.
  - subst taken. apply del_user_req_inv. exact H.
Qed.

(* ---------- histories ---------- *)
Lemma run_inv (ls : list label) (st : store) :
  forallb prompt_label ls = true -> store_inv st = true -> step_good (run false ls st).
Proof.
  revert st. induction ls as [|l r IH]; intros st P H; [exact H|].
  cbn [forallb] in P. apply andb_true_iff in P. destruct P as [P1 P2].
  cbn [run]. pose proof (step_inv l st P1 H) as S.
  destruct (step false l st) as [st1|b x|x]; [apply IH; assumption|exact S|exact I].
Qed.

Lemma init_inv (us : list (N * ustate)) : store_inv (init_store us) = true.
Proof. reflexivity. Qed.

Lemma never_blocks_evict (us : list (N * ustate)) (ls : list label) :
  forallb prompt_label ls = true -> blocks_evict (run false ls (init_store us)) = false.
Proof.
  intro P. pose proof (run_inv ls (init_store us) P (init_inv us)) as S.
  destruct (run false ls (init_store us)) as [st1|b x|x]; [reflexivity| |reflexivity].
  destruct b; [destruct S|reflexivity|reflexivity].
Qed.

Lemma reachable_inv (us : list (N * ustate)) (ls : list label) (st : store) :
  forallb prompt_label ls = true -> run false ls (init_store us) = Ok st -> store_inv st = true.
Proof.
  intros P E. pose proof (run_inv ls (init_store us) P (init_inv us)) as S. rewrite E in S. exact S.
Qed.

(* the invariant, read out: a cached session has an empty stop channel *)
Lemma store_inv_spec (st : store) (s : sess) :
  store_inv st = true -> In s (sessions st) -> s_cached s = true -> s_stopfull s = false.
Proof.
  unfold store_inv. intros H Hin C.
  pose proof (proj1 (forallb_forall _ _) H s Hin) as Hs.
  unfold sess_ok in Hs. rewrite C in Hs. cbn [negb orb] in Hs. apply negb_true_iff in Hs. exact Hs.
Qed.

(* ---------- witnesses ---------- *)
(* user 7 over long polling (no poll outstanding), root user 9 over a websocket *)
Definition wit_users : list (N * ustate) := [(7, StateOK); (9, StateOK)]%N.
Definition wit_pop : list label :=
  [LNew 1 LPOLL []; LLogin 1 7 false; LNew 2 WEBSOCK []; LLogin 2 9 true]%N.

(* the variant that keeps evicted sessions cached: suspend, un-suspend, suspend *)
Definition wit_keep : list label :=
  wit_pop ++ [LAccState 2 7 (AState StateSuspended) true; LAccState 2 7 (AState StateOK) true;
              LAccState 2 7 (AState StateSuspended) true]%N.
(* ... or suspend, then delete *)
Definition wit_keep_del : list label :=
  wit_pop ++ [LAccState 2 7 (AState StateSuspended) true; LDelUser 2 7 true true]%N.

Lemma wit_keep_blocks : run true wit_keep (init_store wit_users) = Blocks BEvict 1%N.
Proof. vm_compute. reflexivity. Qed.
Lemma wit_keep_del_blocks : run true wit_keep_del (init_store wit_users) = Blocks BEvict 1%N.
Proof. vm_compute. reflexivity. Qed.
Lemma wit_keep_prompt : forallb prompt_label wit_keep = true /\ forallb prompt_label wit_keep_del = true.
Proof. split; vm_compute; reflexivity. Qed.
Lemma wit_keep_fine_as_is :
  blocks_any (run false wit_keep (init_store wit_users)) = false /\
  blocks_any (run false wit_keep_del (init_store wit_users)) = false.
Proof. split; vm_compute; reflexivity. Qed.

(* the code as it is: user 7 deletes the own account through the long-polling session and does not poll again
   (the notice of replyDelUser stays in the channel of a session that is still cached); root deletes user 7 *)
Definition wit_self : list label := wit_pop ++ [LDelUser 1 0 true false; LDelUser 2 7 true true]%N.
Lemma wit_self_blocks : run false wit_self (init_store wit_users) = Blocks BEvict 1%N.
Proof. vm_compute. reflexivity. Qed.
