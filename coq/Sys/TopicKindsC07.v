(* C07, the topic kinds other than a group: an executable model of
   - Session.expandTopicName (server/session.go) and the choice of initialiser by the name
     the client used (topicInit, server/init_topic.go),
   - initTopicMe / initTopicFnd / initTopicSys / initTopicP2P + loadSubscribers,
   - the non-group branches of thisUserSub / anotherUserSub / subscriptionReply /
     replySetSub / replyLeaveUnsub / evictUser (server/topic.go) and
     replyOfflineTopicSetSub (server/hub.go),
   for sessions of level Auth or Root.  Users, sessions are N tokens; a p2p topic name is the
   ordered pair of the two ids it encodes (Pure/P2PName.v: p2p_name is injective on unordered
   pairs and parse_p2p returns the pair).  Definitions only; proofs in TopicKindsC07Proofs.v. *)
From Coq Require Import ZArith NArith List Bool.
From Tinode Require Import Base.Util Pure.Acs Sys.Topic.
Import ListNotations.
Open Scope N_scope.

Definition ModeCP2P : N := 31.   (* JRWPA *)
Definition ModeCSelf : N := 41.  (* JPS *)
Definition ModeCSys : N := 79.   (* JRWPD *)

Inductive kcat := CMe | CFnd | CP2P | CSys.

(* names as the client writes them / as the hub keys them *)
Inductive oname := OMe | OFnd | OSys | OUsr (v : N) | ORawFnd (v : N) | ORawP2P (a b : N).
Inductive tkey := KMe (u : N) | KFnd (u : N) | KSys | KP2P (a b : N).

Definition tkey_eqb (x y : tkey) : bool :=
  match x, y with
  | KMe a, KMe b | KFnd a, KFnd b => a =? b
  | KSys, KSys => true
  | KP2P a b, KP2P c d => (a =? c) && (b =? d)
  | _, _ => false
  end.
Definition key_cat (k : tkey) : kcat :=
  match k with KMe _ => CMe | KFnd _ => CFnd | KSys => CSys | KP2P _ _ => CP2P end.

(* expandTopicName: inl hub key, inr error code *)
Definition expand (uid : N) (o : oname) : tkey + Z :=
  match o with
  | OMe => inl (KMe uid)
  | OFnd => inl (KFnd uid)
  | OSys => inl KSys
  | OUsr v => if v =? 0 then inr 400%Z else if v =? uid then inr 403%Z
              else inl (if uid <? v then KP2P uid v else KP2P v uid)
  | ORawFnd v => inl (KFnd v)
  | ORawP2P a b => inl (KP2P a b)
  end.

Record krow := mkKrow { kr_want : N; kr_given : N; kr_del : bool }.
Record kcache := mkKc { kc_users : list (N * krow); kc_sess : list (N * N); kc_auth : N }.
Record ktopic := mkKt { kt_exists : bool; kt_rows : list (N * krow); kt_cache : option kcache }.
Definition empty_topic : ktopic := mkKt false [] None.

Record world := mkWorld { w_acc : list (N * N); w_topics : list (tkey * ktopic) }.

Fixpoint tget (k : tkey) (l : list (tkey * ktopic)) : ktopic :=
  match l with
  | [] => empty_topic
  | (k', t) :: r => if tkey_eqb k k' then t else tget k r
  end.
Fixpoint tset (k : tkey) (t : ktopic) (l : list (tkey * ktopic)) : list (tkey * ktopic) :=
  match l with
  | [] => [(k, t)]
  | (k', t') :: r => if tkey_eqb k k' then (k, t) :: r else (k', t') :: tset k t r
  end.

Inductive kframe :=
| KCtrl (code : Z)
| KAcs (code : Z) (user want given : N)       (* 200 with params.acs (+ user when not 0) *)
| KEvicted (unsub : bool)
| KPanic                                       (* the topic goroutine panics: the server dies *)
| KUnmodelled.                                 (* a branch this model does not follow (grant with O outside groups) *)
Definition kout := list (N * kframe).

Inductive kop :=
| KSub (sid uid : N) (root : bool) (orig : oname) (mode : list N) (defacs : list N)   (* [] = absent *)
| KSetSub (sid uid : N) (root : bool) (orig : oname) (target : N) (mode : list N)     (* target 0 = self *)
| KLeave (sid uid : N) (orig : oname) (unsub : bool)
| KUnload (k : tkey).

Definition live (rows : list (N * krow)) : list (N * krow) := filter (fun e => negb (kr_del (snd e))) rows.
Definition undel (e : N * krow) : N * krow := (fst e, mkKrow (kr_want (snd e)) (kr_given (snd e)) false).

Definition parse_over (cur : N) (s : list N) : N := fst (unmarshal_text cur s).
Definition p2p_mask (m : N) : N := N.lor (N.land m ModeCP2P) mA.

(* t.accessFor(level): selectAccessMode(level, anon, auth, getDefaultAccess(cat, true, false)); None = panic
   (getDefaultAccess panics on a category it does not know; since the repair f52b053 'sys' is known) *)
Definition access_for (cat : kcat) (auth : N) (root : bool) : option N :=
  match cat with
  | CSys => Some (if root then ModeCSys else auth)
  | CP2P => Some (if root then ModeCP2P else auth)
  | CFnd => Some (if root then 0 else auth)
  | CMe => Some (if root then ModeCSelf else auth)
  end.

(* evictUser *)
Definition k_evict (cat : kcat) (c : kcache) (u : N) (unsub : bool) (skip : N) : kcache * kout :=
  let mine := filter (fun e => snd e =? u) (kc_sess c) in
  let sess' := filter (fun e => negb (snd e =? u)) (kc_sess c) in
  let users' :=
    if unsub then
      match cat with
      | CP2P => aset u (match alookup u (kc_users c) with
                        | Some r => mkKrow (kr_want r) (kr_given r) true
                        | None => mkKrow 0 0 true end) (kc_users c)
      | _ => aremove u (kc_users c)
      end
    else kc_users c in
  (mkKc users' sess' (kc_auth c),
   flat_map (fun e => if fst e =? skip then [] else [(fst e, KEvicted unsub)]) mine).

(* store upsert of a subscription row (createSubscription with undelete) / update / soft delete *)
Definition row_upsert (rows : list (N * krow)) (u want given : N) : list (N * krow) := aset u (mkKrow want given false) rows.
Definition row_modes (rows : list (N * krow)) (u : N) (want given : option N) : list (N * krow) :=
  match alookup u rows with
  | Some r => aset u (mkKrow (match want with Some w => w | None => kr_want r end)
                             (match given with Some g => g | None => kr_given r end) (kr_del r)) rows
  | None => rows
  end.

(* outcome of thisUserSub / anotherUserSub *)
Inductive kres :=
| KErr (code : Z)                         (* error reply already decided; 0 = none *)
| KOk (changed : option (N * N))
| KDie                                    (* panic *)
| KUnmod.

(* thisUserSub for cat in {me, fnd, p2p, sys}: (rows', cache', evictions, result) *)
Definition k_this_user_sub (cat : kcat) (rows : list (N * krow)) (c : kcache) (u : N) (root : bool)
           (mode : list N) (newsub : bool) : list (N * krow) * kcache * kout * kres :=
  let '(mw, okw) := match mode with [] => (ModeUnset, true) | _ => unmarshal_text ModeUnset mode end in
  if negb okw then (rows, c, [], KErr 400) else
  let cur := alookup u (kc_users c) in
  let fresh := match cur with Some r => kr_del r | None => true end in
  if fresh then
    (* new subscription, or a p2p participant coming back *)
    let ud := match cur with Some r => r | None => mkKrow 0 0 false end in
    let branch : option (N * N) + Z :=      (* inl (Some (want, given)) | inl None = panic | inr code *)
      match cat with
      | CP2P => inl (Some (p2p_mask (if (mw =? ModeUnset) then kr_want ud else mw), kr_given ud))
      | CSys => if negb root then inr 403%Z
                else inl (Some (if (mw =? ModeUnset) then ModeCSys else N.lor (N.lor (N.land mw ModeCSys) mW) mJ, ModeCSys))
      | _ =>
        let g0 := match cur with
                  | Some r => kr_given r
                  | None => match alookup u rows with Some r => kr_given r | None => ModeUnset end
                  end in
        match access_for cat (kc_auth c) root with
        | None => inl None
        | Some df =>
          inl (Some (if (mw =? ModeUnset) then df else N.ldiff mw mO, if (g0 =? ModeUnset) then df else g0))
        end
      end in
    match branch with
    | inr code => (rows, c, [], KErr code)
    | inl None => (rows, c, [], KDie)
    | inl (Some (want, given)) =>
      if negb (is_joiner given) then (rows, c, [], KErr 403) else
      (* Subs.Create unless a live row was found by the me/fnd lookup *)
      let found_live := match cat, cur with
                        | CMe, None | CFnd, None => match alookup u rows with Some r => negb (kr_del r) | None => false end
                        | _, _ => false
                        end in
      let rows' := if found_live then rows else row_upsert rows u want given in
      let c1 := mkKc (aset u (mkKrow want given false) (kc_users c)) (kc_sess c) (kc_auth c) in
      let changed := newsub || negb ((want =? 0) && (given =? 0)) in
      let ch := if changed then Some (want, given) else None in
      if negb (is_joiner want) then let '(c2, o2) := k_evict cat c1 u false 0 in (rows', c2, o2, KOk ch)
      else (rows', c1, [], KOk ch)
    end
  else
    match cur with
    | None => (rows, c, [], KErr 500)      (* unreachable: fresh = true *)
    | Some r0 =>
      let oldw := kr_want r0 in let oldg := kr_given r0 in
      (* explicit want: sanity checks; None = 403 *)
      let chk : option N + bool :=        (* inl (Some mw) | inl None = 403 | inr _ = not modelled *)
        if (mw =? ModeUnset) then inl (Some mw) else
        if is_owner oldg then inr true      (* ownership transfer inside a non-group topic: grants with O do not occur *)
        else if is_owner mw then inl None
        else inl (Some (match cat with
                        | CP2P => p2p_mask mw
                        | CSys => N.land mw (N.lor (N.land mw ModeCSys) mW)
                        | _ => mw
                        end)) in
      match chk with
      | inr _ => (rows, c, [], KUnmod)
      | inl None => (rows, c, [], KErr 403)
      | inl (Some mw1) =>
        let w1o : option N :=
          if (mw1 =? ModeUnset) then
            (if negb (is_joiner oldw) then
               match access_for cat (kc_auth c) root with
               | None => None
               | Some df => Some (N.ldiff (N.lor oldg df) mO)
               end
             else Some oldw)
          else Some mw1 in
        match w1o with
        | None => (rows, c, [], KDie)
        | Some w1 =>
          let rows' := if (w1 =? oldw) then rows else row_modes rows u (Some w1) None in
          let c1 := mkKc (aset u (mkKrow w1 oldg false) (kc_users c)) (kc_sess c) (kc_auth c) in
          let changed := newsub || negb (w1 =? oldw) in
          let ch := if changed then Some (w1, oldg) else None in
          if negb (is_joiner w1) then let '(c2, o2) := k_evict cat c1 u false 0 in (rows', c2, o2, KOk ch)
          else if negb (is_joiner oldg) then (rows', c1, [], KErr 403)
          else (rows', c1, [], KOk ch)
        end
      end
    end.

(* anotherUserSub for the same kinds *)
Definition k_another_user_sub (cat : kcat) (acc : list (N * N)) (rows : list (N * krow)) (c : kcache)
           (u target : N) (mode : list N) : list (N * krow) * kcache * kout * kres :=
  match alookup u (kc_users c) with
  | None => (rows, c, [], KErr 403)
  | Some h =>
    let hmode := N.land (kr_given h) (kr_want h) in
    if negb (is_sharer hmode) then (rows, c, [], KErr 403) else
    let '(mg0, okg) := match mode with [] => (ModeUnset, true) | _ => unmarshal_text ModeUnset mode end in
    if negb okg then (rows, c, [], KErr 400) else
    let mg := match mode, cat with [], _ => mg0 | _, CP2P => p2p_mask mg0 | _, _ => mg0 end in
    if negb (mg =? ModeUnset) && negb (is_admin hmode) then (rows, c, [], KErr 403) else
    if is_owner mg then (rows, c, [], KErr 403) else     (* Topic.owner is zero for these kinds *)
    let cur := alookup target (kc_users c) in
    let fresh := match cur with Some r => kr_del r | None => true end in
    if fresh then
      match (if (mg =? ModeUnset) then option_map (fun df => N.lor df mJ) (access_for cat (kc_auth c) false) else Some mg) with
      | None => (rows, c, [], KDie)
      | Some given =>
        let wres : N + Z :=
          match alookup target rows with
          | Some r => inl (kr_want r)
          | None => match alookup target acc with
                    | None => inr 404%Z
                    | Some a => inl (N.land a given)
                    end
          end in
        match wres with
        | inr code => (rows, c, [], KErr code)
        | inl want =>
          if negb (is_joiner want) then (rows, c, [], KErr 403) else
          let rows' := row_upsert rows target want given in
          let c1 := mkKc (aset target (mkKrow want given false) (kc_users c)) (kc_sess c) (kc_auth c) in
          if negb (is_joiner given) then let '(c2, o2) := k_evict cat c1 target false 0 in (rows', c2, o2, KOk (Some (want, given)))
          else (rows', c1, [], KOk (Some (want, given)))
        end
      end
    else
      match cur with
      | None => (rows, c, [], KErr 500)
      | Some r0 =>
        let oldg := kr_given r0 in
        if (mg =? ModeUnset) || (mg =? oldg) then
          if negb (is_joiner oldg) then let '(c2, o2) := k_evict cat c target false 0 in (rows, c2, o2, KOk None)
          else (rows, c, [], KOk None)
        else
          let rows' := row_modes rows target None (Some mg) in
          let c1 := mkKc (aset target (mkKrow (kr_want r0) mg false) (kc_users c)) (kc_sess c) (kc_auth c) in
          let ch := Some (kr_want r0, mg) in
          if negb (is_joiner mg) then let '(c2, o2) := k_evict cat c1 target false 0 in (rows', c2, o2, KOk ch)
          else (rows', c1, [], KOk ch)
      end
  end.

(* topic initialisers: inl (topic with cache, Newsub flag) | inr error code *)
Definition acc_of (acc : list (N * N)) (u : N) (root : bool) : option N :=
  match alookup u acc with Some a => Some (if root then ModeCP2P else a) | None => None end.

Definition init_p2p (acc : list (N * N)) (t : ktopic) (u : N) (root : bool) (orig : oname)
           (mode defacs : list N) : (ktopic * bool) + Z :=
  let lv := live (kt_rows t) in
  if kt_exists t && Nat.eqb (length lv) 0 then inr 500%Z else
  if kt_exists t && Nat.eqb (length lv) 2 then
    inl (mkKt true (kt_rows t) (Some (mkKc (map undel lv) [] 0)), false)
  else
    let v := match orig with OUsr v => v | _ => 0 end in
    match alookup u acc, (if v =? 0 then None else alookup v acc) with
    | Some au, Some av =>
      let one := match lv with [e] => Some e | _ => None end in
      let sub1 := match one with Some e => if fst e =? u then Some (snd e) else None | None => None end in
      let sub2 := match one with Some e => if fst e =? u then None else Some (snd e) | None => None end in
      let user1only := match sub2 with Some _ => true | None => false end in
      let from_v := if root then ModeCP2P else av in
      let s2 : krow :=
        match sub2 with
        | Some r => r
        | None => mkKrow (p2p_mask from_v) (p2p_mask (match defacs with [] => au | _ => parse_over au defacs end)) false
        end in
      let s1 : krow :=
        match sub1 with
        | Some r => r
        | None =>
          let w0 := kr_given s2 in
          let w := match mode with [] => w0 | _ => N.lor (p2p_mask (parse_over w0 mode)) mJ end in
          mkKrow w from_v false
        end in
      let newsub := match sub1 with Some _ => false | None => true end in
      let rows' :=
        if negb (kt_exists t) then row_upsert (row_upsert (kt_rows t) u (kr_want s1) (kr_given s1)) v (kr_want s2) (kr_given s2)
        else if user1only then row_upsert (kt_rows t) u (kr_want s1) (kr_given s1)
        else row_upsert (kt_rows t) v (kr_want s2) (kr_given s2) in
      inl (mkKt true rows' (Some (mkKc (aset v (mkKrow (kr_want s2) (kr_given s2) false)
                                            [(u, mkKrow (kr_want s1) (kr_given s1) false)]) [] 0)), newsub)
    | _, _ => inr 404%Z
    end.

Definition init_topic (acc : list (N * N)) (k : tkey) (t : ktopic) (u : N) (root : bool) (orig : oname)
           (mode defacs : list N) : (ktopic * bool) + Z :=
  match orig with
  | OMe => match alookup u acc with
           | Some a => inl (mkKt (kt_exists t) (kt_rows t) (Some (mkKc (map undel (live (kt_rows t))) [] a)), false)
           | None => inr 404%Z
           end
  | OFnd => inl (mkKt (kt_exists t) (kt_rows t) (Some (mkKc (map undel (live (kt_rows t))) [] 0)), false)
  | OSys => if kt_exists t then inl (mkKt true (kt_rows t) (Some (mkKc (map undel (live (kt_rows t))) [] mW)), false)
            else inr 404%Z
  | OUsr _ | ORawP2P _ _ => init_p2p acc t u root orig mode defacs
  | ORawFnd _ => inr 404%Z
  end.

Definition k_attached (t : ktopic) (sid : N) : bool :=
  match kt_cache t with Some c => (match alookup sid (kc_sess c) with Some _ => true | None => false end) | None => false end.

(* a p2p topic whose last participant left is deleted with its rows *)
Definition p2p_gc (cat : kcat) (t : ktopic) : ktopic :=
  match cat, kt_cache t with
  | CP2P, Some c => if Nat.eqb (length (live (kc_users c))) 0 then empty_topic else t
  | _, _ => t
  end.

Definition kstep (w : world) (o : kop) : world * kout :=
  let put k t := mkWorld (w_acc w) (tset k t (w_topics w)) in
  match o with
  | KUnload k =>
    let t := tget k (w_topics w) in
    match kt_cache t with
    | Some c => (match kc_sess c with [] => (put k (mkKt (kt_exists t) (kt_rows t) None), []) | _ => (w, []) end)
    | None => (w, [])
    end
  | KSub sid uid root orig mode defacs =>
    match expand uid orig with
    | inr code => (w, [(sid, KCtrl code)])
    | inl k =>
      let t0 := tget k (w_topics w) in
      if k_attached t0 sid then (w, [(sid, KCtrl 304)]) else
      let loaded : (ktopic * bool) + Z :=
        match kt_cache t0 with
        | Some _ => inl (t0, false)
        | None => init_topic (w_acc w) k t0 uid root orig mode defacs
        end in
      match loaded with
      | inr code => (w, [(sid, KCtrl code)])
      | inl (t1, newsub0) =>
        match kt_cache t1 with
        | None => (w, [(sid, KCtrl 500)])
        | Some c =>
          let cat := key_cat k in
          let newsub := newsub0 || (match cat with
                                    | CP2P | CSys => (match alookup uid (kc_users c) with Some r => kr_del r | None => true end)
                                    | _ => false end) in
          let '(rows', c1, ev, res) := k_this_user_sub cat (kt_rows t1) c uid root mode newsub in
          match res with
          | KDie => (put k (mkKt (kt_exists t1) rows' (Some c1)), ev ++ [(sid, KPanic)])
          | KUnmod => (put k (mkKt (kt_exists t1) rows' (Some c1)), ev ++ [(sid, KUnmodelled)])
          | KErr code => (put k (mkKt (kt_exists t1) rows' (Some c1)), ev ++ (if (code =? 0)%Z then [] else [(sid, KCtrl code)]))
          | KOk ch =>
            let joined := match ch with Some (wt, g) => is_joiner (N.land g wt) | None => true end in
            let c2 := if joined then mkKc (kc_users c1) (aset sid uid (kc_sess c1)) (kc_auth c1) else c1 in
            let reply := match ch with Some (wt, g) => KAcs 200 0 wt g | None => KCtrl 200 end in
            (put k (mkKt (kt_exists t1) rows' (Some c2)), ev ++ [(sid, reply)])
          end
        end
      end
    end
  | KSetSub sid uid root orig target mode =>
    match expand uid orig with
    | inr code => (w, [(sid, KCtrl code)])
    | inl k =>
      let t := tget k (w_topics w) in
      let cat := key_cat k in
      if k_attached t sid then
        match kt_cache t with
        | None => (w, [])
        | Some c =>
          let self := (target =? 0) || (target =? uid) in
          let '(rows', c1, ev, res) :=
            if self then k_this_user_sub cat (kt_rows t) c uid root mode false
            else k_another_user_sub cat (w_acc w) (kt_rows t) c uid target mode in
          let w' := put k (mkKt (kt_exists t) rows' (Some c1)) in
          match res with
          | KDie => (w', ev ++ [(sid, KPanic)])
          | KUnmod => (w', ev ++ [(sid, KUnmodelled)])
          | KErr code => (w', ev ++ (if (code =? 0)%Z then [] else [(sid, KCtrl code)]))
          | KOk (Some (wt, g)) => (w', ev ++ [(sid, KAcs 200 (if self then 0 else target) wt g)])
          | KOk None => (w', ev ++ [(sid, KCtrl 304)])
          end
        end
      else
        (* replyOfflineTopicSetSub *)
        match mode with
        | [] => (w, [(sid, KCtrl 304)])
        | _ =>
          if negb (target =? 0) && negb (target =? uid) then (w, [(sid, KCtrl 403)]) else
          match alookup uid (kt_rows t) with
          | None => (w, [(sid, KCtrl 404)])
          | Some r =>
            if kr_del r then (w, [(sid, KCtrl 404)]) else
            let '(mw, okw) := unmarshal_text 0 mode in
            if negb okw then (w, [(sid, KCtrl 500)]) else
            if negb (Bool.eqb (is_owner mw) (is_owner (kr_want r))) then (w, [(sid, KCtrl 403)]) else
            let mw1 := match cat with CP2P => p2p_mask mw | _ => mw end in
            if mw1 =? kr_want r then (w, [(sid, KCtrl 304)]) else
            (put k (mkKt (kt_exists t) (row_modes (kt_rows t) uid (Some mw1) None) (kt_cache t)),
             [(sid, KAcs 200 0 mw1 (kr_given r))])
          end
        end
    end
  | KLeave sid uid orig unsub =>
    match expand uid orig with
    | inr code => (w, [(sid, KCtrl code)])
    | inl k =>
      let t := tget k (w_topics w) in
      let cat := key_cat k in
      if negb (k_attached t sid) then (w, [(sid, KCtrl (if unsub then 409 else 304)%Z)]) else
      match kt_cache t with
      | None => (w, [])
      | Some c =>
        if unsub then
          match orig with
          | OMe | OFnd => (w, [(sid, KCtrl 403)])
          | _ =>
            match alookup uid (kt_rows t) with
            | Some r =>
              if kr_del r then (w, [(sid, KCtrl 304)]) else
              let rows' := aset uid (mkKrow (kr_want r) (kr_given r) true) (kt_rows t) in
              let '(c1, ev) := k_evict cat c uid true sid in
              (put k (p2p_gc cat (mkKt (kt_exists t) rows' (Some c1))), (sid, KCtrl 200) :: ev)
            | None => (w, [(sid, KCtrl 304)])
            end
          end
        else
          (put k (mkKt (kt_exists t) (kt_rows t) (Some (mkKc (kc_users c) (aremove sid (kc_sess c)) (kc_auth c)))),
           [(sid, KCtrl 200)])
      end
    end
  end.

Fixpoint krun (w : world) (h : list kop) : world * list kout :=
  match h with
  | [] => (w, [])
  | o :: r => let '(w1, o1) := kstep w o in let '(w2, os) := krun w1 r in (w2, o1 :: os)
  end.

(* the world the driver starts from: accounts with their own 'me' and 'fnd' subscriptions
   (store.Users.Create), the 'sys' topic row *)
Definition init_world (acc : list (N * N)) : world :=
  mkWorld acc
    ((KSys, mkKt true [] None) ::
     flat_map (fun e => [(KMe (fst e), mkKt false [(fst e, mkKrow ModeCSelf ModeCSelf false)] None);
                         (KFnd (fst e), mkKt false [(fst e, mkKrow ModeCSelf ModeCSelf false)] None)]) acc).
