(* Extraction of the executable models to OCaml.  ExtrOcamlBasic only: bool,
   option, unit, list, prod, sumbool map to the OCaml types; N, Z, positive,
   nat stay the extracted inductive types.  No Extract Constant / Extract
   Inductive of our own. *)
Require Extraction.
Require ExtrOcamlBasic.
From Coq Require Import ZArith NArith.
From Tinode Require Import Pure.Acs.
Extraction Blacklist List String Int.
Separate Extraction BinInt.Z.add BinInt.Z.of_N BinNat.N.of_nat Nat.add
  Acs.marshal Acs.mode_string Acs.parse_acs Acs.parse_acs_unrepaired Acs.unmarshal_text
  Acs.delta Acs.apply_delta Acs.apply_mutation Acs.notify_string Acs.track Acs.effective.
