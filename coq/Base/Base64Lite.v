(* Byte-exact model of Go's encoding/base64 URLEncoding.DecodeString
   (padded, non-strict), as used by checkAPIKey (server/api_key.go:41).
   Local to property C12.

   Go's decoder (encoding/base64 decodeQuantum): '\r' and '\n' are skipped
   wherever they occur (before, inside and after a quantum, between and after
   the padding characters); every other byte must be in the alphabet, except
   for the padding that closes the input: "xx==" (1 byte) or "xxx=" (2
   bytes), after which only CR/LF may follow.  An incomplete last quantum
   without padding is an error (the encoding is padded).  Non-strict: the
   unused low bits of a padded quantum are not checked.
   [None] = CorruptInputError. *)
From Coq Require Import NArith List Bool.
Import ListNotations.
Open Scope N_scope.

Definition cCR := 13. Definition cLF := 10. Definition cPad := 61.

(* URL-safe alphabet: A-Z a-z 0-9 - _ *)
Definition b64url_val (c : N) : option N :=
  if (65 <=? c) && (c <=? 90) then Some (c - 65)
  else if (97 <=? c) && (c <=? 122) then Some (c - 97 + 26)
  else if (48 <=? c) && (c <=? 57) then Some (c - 48 + 52)
  else if c =? 45 then Some 62
  else if c =? 95 then Some 63
  else None.

Definition is_crlf (c : N) : bool := (c =? cCR) || (c =? cLF).

Definition strip_crlf (s : list N) : list N := filter (fun c => negb (is_crlf c)) s.

(* val := d0<<18 | d1<<12 | d2<<6 | d3 ; bytes val>>16, val>>8, val *)
Definition q_byte0 (a b : N) : N := (a * 4 + b / 16) mod 256.
Definition q_byte1 (b c : N) : N := ((b mod 16) * 16 + c / 4) mod 256.
Definition q_byte2 (c d : N) : N := ((c mod 4) * 64 + d) mod 256.

(* input without CR/LF *)
Fixpoint decode_quanta (s : list N) : option (list N) :=
  match s with
  | [] => Some []
  | a :: b :: c :: d :: rest =>
    match b64url_val a, b64url_val b with
    | Some va, Some vb =>
      match b64url_val c with
      | Some vc =>
        match b64url_val d with
        | Some vd =>
          match decode_quanta rest with
          | Some r => Some (q_byte0 va vb :: q_byte1 vb vc :: q_byte2 vc vd :: r)
          | None => None
          end
        | None =>
          (* "xxx=" then end of input *)
          if (d =? cPad) then
            match rest with [] => Some [q_byte0 va vb; q_byte1 vb vc] | _ => None end
          else None
        end
      | None =>
        (* "xx==" then end of input *)
        if (c =? cPad) && (d =? cPad) then
          match rest with [] => Some [q_byte0 va vb] | _ => None end
        else None
      end
    | _, _ => None
    end
  | _ => None      (* 1..3 characters left: incomplete quantum of a padded encoding *)
  end.

Definition b64url_decode (s : list N) : option (list N) := decode_quanta (strip_crlf s).

(* DecodedLen of a padded encoding: n/4*3 *)
Definition decoded_len (n : nat) : nat := Nat.mul (Nat.div n 4) 3.

(* encoder (for the round-trip lemma and for building valid keys in examples) *)
Definition b64url_chr (v : N) : N :=
  if v <? 26 then v + 65 else if v <? 52 then v - 26 + 97 else if v <? 62 then v - 52 + 48
  else if v =? 62 then 45 else 95.

Fixpoint b64url_encode (l : list N) : list N :=
  match l with
  | [] => []
  | [x] => [b64url_chr (x / 4); b64url_chr ((x mod 4) * 16); cPad; cPad]
  | [x; y] => [b64url_chr (x / 4); b64url_chr ((x mod 4) * 16 + y / 16); b64url_chr ((y mod 16) * 4); cPad]
  | x :: y :: z :: rest =>
    b64url_chr (x / 4) :: b64url_chr ((x mod 4) * 16 + y / 16)
    :: b64url_chr ((y mod 16) * 4 + z / 64) :: b64url_chr (z mod 64) :: b64url_encode rest
  end.
