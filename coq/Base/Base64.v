(* Byte-exact model of the parts of Go's encoding/base64 and encoding/base32
   (go1.23) that server/store/types uses:

     base64.URLEncoding.WithPadding(base64.NoPadding)   Encode / Decode
       (non-strict: the unused trailing bits of the last character are NOT
        checked; '\r' and '\n' are skipped anywhere; any other character
        outside the alphabet - '=' included, there is no padding character -
        is CorruptInputError; the byte count returned with an error is the
        number of bytes of the complete quanta before it)
     base32.StdEncoding.WithPadding(base32.NoPadding)   EncodeToString / DecodeString
       (DecodeString strips '\r' '\n' first; with NoPadding the padding
        character is rune(-1), which the decoder compares as byte(-1) = 0xFF,
        so the input byte 0xFF is treated as padding; an unpadded tail of
        1, 3 or 6 characters yields no bytes and no error)

   Bytes and characters are N (< 256), strings are list N.  Shifts, masks and
   ors are written as in the Go source.  Definitions only; lemmas are in
   Base64Proofs.v. *)
From Coq Require Import NArith List Bool.
Import ListNotations.
Open Scope N_scope.

Definition byte (x : N) : N := N.land x 255.

(* ---------------------------------------------------------------- base64 *)

(* encodeURL = "ABC...XYZabc...xyz0123456789-_" : index -> character *)
Definition enc_char (v : N) : N :=
  if v <? 26 then v + 65
  else if v <? 52 then v + 71
  else if v <? 62 then v - 4
  else if v =? 62 then 45 else 95.

(* decodeMap: character -> index, None = 0xFF (not in the alphabet) *)
Definition dec_char (c : N) : option N :=
  if (65 <=? c) && (c <=? 90) then Some (c - 65)
  else if (97 <=? c) && (c <=? 122) then Some (c - 71)
  else if (48 <=? c) && (c <=? 57) then Some (c + 4)
  else if c =? 45 then Some 62
  else if c =? 95 then Some 63
  else None.

Definition is_crlf (c : N) : bool := (c =? 10) || (c =? 13).

(* Encode: val := src[0]<<16 | src[1]<<8 | src[2]; dst[i] = encode[val>>(18-6i) & 0x3F] *)
Definition enc_val (a b c : N) : N := N.lor (N.lor (N.shiftl a 16) (N.shiftl b 8)) c.
Definition sx (v k : N) : N := N.land (N.shiftr v k) 63.

(* the 6-bit indices Encode looks up, for the whole input (NoPadding: a
   remainder of 1 byte gives 2 indices, of 2 bytes gives 3) *)
Fixpoint b64_sextets (src : list N) : list N :=
  match src with
  | a :: b :: c :: rest =>
      let v := enc_val a b c in sx v 18 :: sx v 12 :: sx v 6 :: sx v 0 :: b64_sextets rest
  | [a; b] => let v := enc_val a b 0 in [sx v 18; sx v 12; sx v 6]
  | [a] => let v := enc_val a 0 0 in [sx v 18; sx v 12]
  | [] => []
  end.

Definition b64_encode (src : list N) : list N := map enc_char (b64_sextets src).

(* decodeQuantum's packing: val := d0<<18 | d1<<12 | d2<<6 | d3;
   bytes val>>16, val>>8, val; dlen-1 of them are written *)
Definition dec_val (d0 d1 d2 d3 : N) : N :=
  N.lor (N.lor (N.lor (N.shiftl d0 18) (N.shiftl d1 12)) (N.shiftl d2 6)) d3.

Definition quantum_bytes (q : list N) : list N :=
  match q with
  | [d0; d1; d2; d3] =>
      let v := dec_val d0 d1 d2 d3 in [byte (N.shiftr v 16); byte (N.shiftr v 8); byte v]
  | [d0; d1; d2] =>
      let v := dec_val d0 d1 d2 0 in [byte (N.shiftr v 16); byte (N.shiftr v 8)]
  | [d0; d1] =>
      let v := dec_val d0 d1 0 0 in [byte (N.shiftr v 16)]
  | _ => []
  end.

(* Decode (the 8- and 4-character fast paths compute the same as repeated
   decodeQuantum and fall back to it on any character outside the alphabet).
   [q] = indices of the current quantum read so far (fewer than 4), [out] =
   bytes written.  Result: bytes written, and whether an error is returned. *)
Fixpoint b64_dec_loop (src q out : list N) : list N * bool :=
  match src with
  | [] =>
      match q with
      | [] => (out, false)
      | [_] => (out, true)                       (* j == 1: CorruptInputError *)
      | _ => (out ++ quantum_bytes q, false)     (* NoPadding: dlen = j *)
      end
  | c :: rest =>
      match dec_char c with
      | Some v =>
          let q' := q ++ [v] in
          if Nat.eqb (length q') 4 then b64_dec_loop rest [] (out ++ quantum_bytes q')
          else b64_dec_loop rest q' out
      | None =>
          if is_crlf c then b64_dec_loop rest q out   (* j--; continue *)
          else (out, true)                            (* CorruptInputError *)
      end
  end.

Definition b64_decode (src : list N) : list N * bool := b64_dec_loop src [] [].

(* Encoding.DecodedLen for NoPadding: n * 6 / 8 *)
Definition b64_decoded_len (n : N) : N := n * 6 / 8.

(* ---------------------------------------------------------------- base32 *)

(* encodeStd = "ABCDEFGHIJKLMNOPQRSTUVWXYZ234567" *)
Definition enc32_char (v : N) : N := if v <? 26 then v + 65 else v + 24.

(* strings.ToLower on the (ASCII) output of the encoder *)
Definition lower_ascii (c : N) : N := if (65 <=? c) && (c <=? 90) then c + 32 else c.

(* decodeMap of StdEncoding (upper case) *)
Definition dec32_char (c : N) : option N :=
  if (65 <=? c) && (c <=? 90) then Some (c - 65)
  else if (50 <=? c) && (c <=? 55) then Some (c - 24)
  else None.

(* decodeMap of NewEncoding("abcdefghijklmnopqrstuvwxyz234567") (repair) *)
Definition dec32l_char (c : N) : option N :=
  if (97 <=? c) && (c <=? 122) then Some (c - 97)
  else if (50 <=? c) && (c <=? 55) then Some (c - 24)
  else None.

Definition u32 (x : N) : N := N.land x 4294967295.
Definition q5 (v k : N) : N := N.land (N.shiftr v k) 31.

(* Encode, full 5-byte group:
   hi := b0<<24 | b1<<16 | b2<<8 | b3 ; lo := hi<<8 | b4  (uint32) *)
Definition b32_hi (b0 b1 b2 b3 : N) : N :=
  N.lor (N.lor (N.lor (N.shiftl b0 24) (N.shiftl b1 16)) (N.shiftl b2 8)) b3.
Definition b32_lo (hi b4 : N) : N := N.lor (u32 (N.shiftl hi 8)) b4.

(* Encode, remaining 1..4 bytes ("in reverse order" in the source):
   val accumulates src[3] | src[2]<<8 | src[1]<<16 | src[0]<<24 *)
Definition b32_tail (l : list N) : list N :=
  match l with
  | [b0] =>
      let v := N.shiftl b0 24 in [q5 v 27; q5 v 22]
  | [b0; b1] =>
      let v1 := N.shiftl b1 16 in
      let v := N.lor v1 (N.shiftl b0 24) in
      [q5 v 27; q5 v 22; q5 v1 17; q5 v1 12]
  | [b0; b1; b2] =>
      let v2 := N.shiftl b2 8 in
      let v1 := N.lor v2 (N.shiftl b1 16) in
      let v := N.lor v1 (N.shiftl b0 24) in
      [q5 v 27; q5 v 22; q5 v1 17; q5 v1 12; q5 v2 7]
  | [b0; b1; b2; b3] =>
      let v3 := b3 in
      let v2 := N.lor v3 (N.shiftl b2 8) in
      let v1 := N.lor v2 (N.shiftl b1 16) in
      let v := N.lor v1 (N.shiftl b0 24) in
      [q5 v 27; q5 v 22; q5 v1 17; q5 v1 12; q5 v2 7;
       N.land (N.shiftr v3 2) 31; N.land (u32 (N.shiftl v3 3)) 31]
  | _ => []
  end.

Fixpoint b32_quintets (src : list N) : list N :=
  match src with
  | b0 :: b1 :: b2 :: b3 :: b4 :: rest =>
      let hi := b32_hi b0 b1 b2 b3 in
      let lo := b32_lo hi b4 in
      q5 hi 27 :: q5 hi 22 :: q5 hi 17 :: q5 hi 12 :: q5 hi 7 :: q5 hi 2 ::
      q5 lo 5 :: q5 lo 0 :: b32_quintets rest
  | l => b32_tail l
  end.

(* StdEncoding.WithPadding(NoPadding).EncodeToString *)
Definition b32_encode (src : list N) : list N := map enc32_char (b32_quintets src).

(* decode's packing of dlen 5-bit values (byte arithmetic: every shift of a
   byte is truncated to a byte); dlen = 0, 1, 3, 6 match no case *)
Definition b32_pack (q : list N) : list N :=
  match q with
  | [d0; d1] => [N.lor (byte (N.shiftl d0 3)) (N.shiftr d1 2)]
  | [d0; d1; d2; d3] =>
      [N.lor (byte (N.shiftl d0 3)) (N.shiftr d1 2);
       N.lor (N.lor (byte (N.shiftl d1 6)) (byte (N.shiftl d2 1))) (N.shiftr d3 4)]
  | [d0; d1; d2; d3; d4] =>
      [N.lor (byte (N.shiftl d0 3)) (N.shiftr d1 2);
       N.lor (N.lor (byte (N.shiftl d1 6)) (byte (N.shiftl d2 1))) (N.shiftr d3 4);
       N.lor (byte (N.shiftl d3 4)) (N.shiftr d4 1)]
  | [d0; d1; d2; d3; d4; d5; d6] =>
      [N.lor (byte (N.shiftl d0 3)) (N.shiftr d1 2);
       N.lor (N.lor (byte (N.shiftl d1 6)) (byte (N.shiftl d2 1))) (N.shiftr d3 4);
       N.lor (byte (N.shiftl d3 4)) (N.shiftr d4 1);
       N.lor (N.lor (byte (N.shiftl d4 7)) (byte (N.shiftl d5 2))) (N.shiftr d6 3)]
  | [d0; d1; d2; d3; d4; d5; d6; d7] =>
      [N.lor (byte (N.shiftl d0 3)) (N.shiftr d1 2);
       N.lor (N.lor (byte (N.shiftl d1 6)) (byte (N.shiftl d2 1))) (N.shiftr d3 4);
       N.lor (byte (N.shiftl d3 4)) (N.shiftr d4 1);
       N.lor (N.lor (byte (N.shiftl d4 7)) (byte (N.shiftl d5 2))) (N.shiftr d6 3);
       N.lor (byte (N.shiftl d6 5)) d7]
  | _ => []
  end.

Definition strip_newlines (s : list N) : list N := filter (fun c => negb (is_crlf c)) s.

Definition len_lt (l : list N) (n : nat) : bool := Nat.ltb (length l) n.

(* Encoding.decode for padChar = NoPadding (byte(padChar) = 0xFF), over the
   decode map [dm].  [q] = values of the current quantum (fewer than 8).
   None = an error is returned. *)
Fixpoint b32_dec_loop (dm : N -> option N) (src q out : list N) : option (list N) :=
  match src with
  | [] => Some (out ++ b32_pack q)            (* dlen, end = j, true *)
  | c :: rest =>
      if (c =? 255) && Nat.leb 2 (length q) && len_lt rest 8 then
        (* "we've reached the end and there's padding" *)
        if Nat.ltb (length rest + length q) 7 then None           (* not enough padding *)
        else if negb (forallb (fun x => x =? 255) (firstn (7 - length q) rest)) then None
        else if Nat.eqb (length q) 3 || Nat.eqb (length q) 6 then None   (* dlen 1 is excluded by j >= 2 *)
        else Some (out ++ b32_pack q)
      else
        match dm c with
        | None => None
        | Some v =>
            let q' := q ++ [v] in
            if Nat.eqb (length q') 8 then b32_dec_loop dm rest [] (out ++ b32_pack q')
            else b32_dec_loop dm rest q' out
        end
  end.

(* DecodeString *)
Definition b32_decode (dm : N -> option N) (s : list N) : option (list N) :=
  b32_dec_loop dm (strip_newlines s) [] [].
