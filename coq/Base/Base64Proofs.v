(* Lemmas about Base/Base64.v: the shift/mask/or formulas of the Go encoders in
   arithmetic form, the 3-byte <-> 4-character group laws (and the partial
   groups), the whole-string laws by induction over groups, and the bound that
   makes the callers' fixed length gate reject every text with a character
   outside the alphabet. *)
From Coq Require Import NArith ZArith List Bool Lia Arith.
From Coq Require Import ZifyBool ZifyNat ZifyN.
From Tinode Require Import Base.Util Base.Base64.
Import ListNotations.
Open Scope N_scope.

(* linear arithmetic with division/modulo by literals *)
Ltac dlia := zify; Z.to_euclidean_division_equations; lia.

(* equality of explicit lists, element by element *)
Ltac leq := repeat match goal with |- _ :: _ = _ :: _ => f_equal end.

(* ------------------------------------------------ shifts, masks, ors *)

Lemma land_disjoint x y k : x mod 2^k = 0 -> y < 2^k -> N.land x y = 0.
Proof.
  intros Hx Hy. apply N.bits_inj_0. intros n. rewrite N.land_spec.
  destruct (N.lt_ge_cases n k) as [Hn|Hn].
  - rewrite <- (N.mod_pow2_bits_low x k n Hn), Hx, N.bits_0. reflexivity.
  - rewrite <- (N.mod_small y (2^k) Hy), N.mod_pow2_bits_high by assumption.
    apply andb_false_r.
Qed.

Lemma lor_add k x y : x mod 2^k = 0 -> y < 2^k -> N.lor x y = x + y.
Proof.
  intros Hx Hy. pose proof (land_disjoint x y k Hx Hy) as H.
  rewrite <- N.lxor_lor by exact H. symmetry. now apply N.add_nocarry_lxor.
Qed.

Lemma shl_mul x k : N.shiftl x k = x * 2^k.
Proof. apply N.shiftl_mul_pow2. Qed.
Lemma shr_div x k : N.shiftr x k = x / 2^k.
Proof. apply N.shiftr_div_pow2. Qed.
Lemma land_mod k x : N.land x (N.ones k) = x mod 2^k.
Proof. apply N.land_ones. Qed.

Lemma byte_mod x : byte x = x mod 256.
Proof. unfold byte. exact (land_mod 8 x). Qed.
Lemma byte_lt x : byte x < 256.
Proof. rewrite byte_mod. apply N.mod_lt. discriminate. Qed.
Lemma land63 x : N.land x 63 = x mod 64.
Proof. exact (land_mod 6 x). Qed.
Lemma land31 x : N.land x 31 = x mod 32.
Proof. exact (land_mod 5 x). Qed.
Lemma u32_mod x : u32 x = x mod 4294967296.
Proof. exact (land_mod 32 x). Qed.

(* turn every 2^k with literal k into a literal *)
Ltac is_lit k :=
  lazymatch k with N0 => idtac | Npos _ => idtac end;
  let v := eval vm_compute in k in constr_eq v k.
Ltac pow_lit :=
  repeat match goal with
  | |- context [N.pow 2 ?k] =>
      is_lit k; let v := eval vm_compute in (N.pow 2 k) in change (N.pow 2 k) with v
  | H : context [N.pow 2 ?k] |- _ =>
      is_lit k; let v := eval vm_compute in (N.pow 2 k) in change (N.pow 2 k) with v in H
  end.

Lemma sx_arith v k : sx v k = v / 2^k mod 64.
Proof. unfold sx. now rewrite land63, shr_div. Qed.
Lemma sx_lt v k : sx v k < 64.
Proof. rewrite sx_arith. apply N.mod_lt. discriminate. Qed.
Lemma q5_arith v k : q5 v k = v / 2^k mod 32.
Proof. unfold q5. now rewrite land31, shr_div. Qed.
Lemma q5_lt v k : q5 v k < 32.
Proof. rewrite q5_arith. apply N.mod_lt. discriminate. Qed.

Lemma enc_val_arith a b c : a < 256 -> b < 256 -> c < 256 ->
  enc_val a b c = a * 65536 + b * 256 + c.
Proof.
  intros. unfold enc_val. rewrite !shl_mul. pow_lit.
  rewrite (lor_add 16 (a * 65536) (b * 256)) by (pow_lit; dlia).
  rewrite (lor_add 8) by (pow_lit; dlia). reflexivity.
Qed.

Lemma dec_val_arith d0 d1 d2 d3 : d0 < 64 -> d1 < 64 -> d2 < 64 -> d3 < 64 ->
  dec_val d0 d1 d2 d3 = d0 * 262144 + d1 * 4096 + d2 * 64 + d3.
Proof.
  intros. unfold dec_val. rewrite !shl_mul. pow_lit.
  rewrite (lor_add 18 (d0 * 262144)) by (pow_lit; dlia).
  rewrite (lor_add 12 (d0 * 262144 + d1 * 4096)) by (pow_lit; dlia).
  rewrite (lor_add 6) by (pow_lit; dlia). reflexivity.
Qed.

(* ------------------------------------------------ base64 alphabet *)

Lemma dec_enc_char v : v < 64 -> dec_char (enc_char v) = Some v.
Proof.
  intros H. unfold enc_char.
  repeat match goal with |- context [if ?b then _ else _] => destruct b eqn:? end;
  unfold dec_char;
  repeat match goal with |- context [if ?b then _ else _] => destruct b eqn:? end;
    try (f_equal; lia); lia.
Qed.

Lemma dec_char_some c v : dec_char c = Some v -> v < 64 /\ enc_char v = c.
Proof.
  unfold dec_char, enc_char. intros H.
  repeat match type of H with
  | (if ?b then _ else _) = _ => destruct b eqn:?
  end; inversion H; subst; clear H;
  repeat match goal with |- context [if ?b then _ else _] => destruct b eqn:? end; lia.
Qed.

Lemma enc_char_inj v w : v < 64 -> w < 64 -> enc_char v = enc_char w -> v = w.
Proof.
  intros Hv Hw H. pose proof (dec_enc_char v Hv) as A. rewrite H, (dec_enc_char w Hw) in A.
  now inversion A.
Qed.

Lemma enc_char_not_crlf v : is_crlf (enc_char v) = false.
Proof.
  unfold is_crlf, enc_char.
  repeat match goal with |- context [if ?b then _ else _] => destruct b eqn:? end; lia.
Qed.

(* ------------------------------------------------ base64 groups (arithmetic) *)

Lemma sext_recompose v : v < 16777216 ->
  (v / 262144 mod 64) * 262144 + (v / 4096 mod 64) * 4096 + (v / 64 mod 64) * 64 + v / 1 mod 64 = v.
Proof. intros. dlia. Qed.

Lemma byte_recompose v : v < 16777216 ->
  (v / 65536 mod 256) * 65536 + (v / 256 mod 256) * 256 + v mod 256 = v.
Proof. intros. dlia. Qed.

(* a full group: 3 bytes -> 4 indices -> the same 3 bytes *)
Lemma q4_enc a b c : a < 256 -> b < 256 -> c < 256 ->
  quantum_bytes [sx (enc_val a b c) 18; sx (enc_val a b c) 12; sx (enc_val a b c) 6; sx (enc_val a b c) 0]
  = [a; b; c].
Proof.
  intros Ha Hb Hc. unfold quantum_bytes.
  rewrite dec_val_arith by apply sx_lt. rewrite !sx_arith, enc_val_arith by assumption.
  pow_lit. rewrite sext_recompose by lia. rewrite !byte_mod, !shr_div. pow_lit.
  leq; dlia.
Qed.

(* 4 indices -> 3 bytes -> the same 4 indices *)
Lemma q4_dec d0 d1 d2 d3 : d0 < 64 -> d1 < 64 -> d2 < 64 -> d3 < 64 ->
  b64_sextets (quantum_bytes [d0; d1; d2; d3]) = [d0; d1; d2; d3].
Proof.
  intros H0 H1 H2 H3. unfold quantum_bytes. cbn [b64_sextets].
  rewrite enc_val_arith by apply byte_lt. rewrite !sx_arith, !byte_mod, !shr_div.
  rewrite dec_val_arith by assumption. pow_lit.
  rewrite byte_recompose by lia. leq; dlia.
Qed.

(* 2 bytes <-> 3 indices; the last index carries 2 unused bits *)
Lemma q3_enc a b : a < 256 -> b < 256 ->
  quantum_bytes [sx (enc_val a b 0) 18; sx (enc_val a b 0) 12; sx (enc_val a b 0) 6] = [a; b].
Proof.
  intros Ha Hb. unfold quantum_bytes.
  rewrite dec_val_arith by (try apply sx_lt; lia). rewrite !sx_arith, enc_val_arith by lia.
  rewrite !byte_mod, !shr_div. pow_lit. leq; dlia.
Qed.

Lemma q3_dec d0 d1 d2 : d0 < 64 -> d1 < 64 -> d2 < 64 ->
  b64_sextets (quantum_bytes [d0; d1; d2]) = [d0; d1; d2 / 4 * 4].
Proof.
  intros H0 H1 H2. unfold quantum_bytes. cbn [b64_sextets].
  rewrite enc_val_arith by (try apply byte_lt; lia). rewrite !sx_arith, !byte_mod, !shr_div.
  rewrite dec_val_arith by lia. pow_lit.
  remember (d0 * 262144 + d1 * 4096 + d2 * 64 + 0) as V eqn:EV.
  assert (E : (V / 65536 mod 256) * 65536 + (V / 256 mod 256) * 256 + 0
              = d0 * 262144 + d1 * 4096 + (d2 / 4 * 4) * 64).
  { assert (V mod 256 = (d2 mod 4) * 64) by (subst V; dlia).
    pose proof (byte_recompose V ltac:(lia)) as R. dlia. }
  rewrite E. clear E EV V.
  assert (Hh : d2 / 4 * 4 < 64) by dlia. revert Hh. generalize (d2 / 4 * 4). intros h Hh.
  leq; dlia.
Qed.

(* 1 byte <-> 2 indices; the last index carries 4 unused bits *)
Lemma q2_enc a : a < 256 ->
  quantum_bytes [sx (enc_val a 0 0) 18; sx (enc_val a 0 0) 12] = [a].
Proof.
  intros Ha. unfold quantum_bytes.
  rewrite dec_val_arith by (try apply sx_lt; lia). rewrite !sx_arith, enc_val_arith by lia.
  rewrite !byte_mod, !shr_div. pow_lit. leq; dlia.
Qed.

Lemma q2_dec d0 d1 : d0 < 64 -> d1 < 64 ->
  b64_sextets (quantum_bytes [d0; d1]) = [d0; d1 / 16 * 16].
Proof.
  intros H0 H1. unfold quantum_bytes. cbn [b64_sextets].
  rewrite enc_val_arith by (try apply byte_lt; lia). rewrite !sx_arith, !byte_mod, !shr_div.
  rewrite dec_val_arith by lia. pow_lit.
  remember (d0 * 262144 + d1 * 4096 + 0 * 64 + 0) as V eqn:EV.
  assert (E : (V / 65536 mod 256) * 65536 + 0 * 256 + 0
              = d0 * 262144 + (d1 / 16 * 16) * 4096).
  { assert (V mod 65536 = (d1 mod 16) * 4096) by (subst V; dlia).
    assert (V mod 65536 = (V / 256 mod 256) * 256 + V mod 256) by (clear; dlia).
    pose proof (byte_recompose V ltac:(lia)) as R. dlia. }
  rewrite E. clear E EV V.
  assert (Hh : d1 / 16 * 16 < 64) by dlia. revert Hh. generalize (d1 / 16 * 16). intros h Hh.
  leq; dlia.
Qed.

(* the unused trailing bits do not reach the bytes (non-strict decoding) *)
Lemma q3_trailing d0 d1 d2 k : d0 < 64 -> d1 < 64 -> d2 < 64 -> d2 mod 4 = 0 -> k < 4 ->
  quantum_bytes [d0; d1; d2 + k] = quantum_bytes [d0; d1; d2].
Proof.
  intros H0 H1 H2 Hm Hk. unfold quantum_bytes.
  assert (Hd : d2 = 4 * (d2 / 4)) by dlia. assert (Hq : d2 / 4 < 16) by dlia.
  revert Hd Hq. generalize (d2 / 4). intros m Hd Hq. subst d2. clear Hm.
  rewrite !dec_val_arith by dlia. rewrite !byte_mod, !shr_div. pow_lit. leq; dlia.
Qed.

Lemma q2_trailing d0 d1 k : d0 < 64 -> d1 < 64 -> d1 mod 16 = 0 -> k < 16 ->
  quantum_bytes [d0; d1 + k] = quantum_bytes [d0; d1].
Proof.
  intros H0 H1 Hm Hk. unfold quantum_bytes.
  assert (Hd : d1 = 16 * (d1 / 16)) by dlia. assert (Hq : d1 / 16 < 4) by dlia.
  revert Hd Hq. generalize (d1 / 16). intros m Hd Hq. subst d1. clear Hm.
  rewrite !dec_val_arith by dlia. rewrite !byte_mod, !shr_div. pow_lit. leq; dlia.
Qed.

(* ------------------------------------------------ whole strings (base64) *)

Lemma list_ind4 {A} (P : list A -> Prop) :
  P [] -> (forall a, P [a]) -> (forall a b, P [a; b]) -> (forall a b c, P [a; b; c]) ->
  (forall a b c d l, P l -> P (a :: b :: c :: d :: l)) -> forall l, P l.
Proof.
  intros H0 H1 H2 H3 H4. fix IH 1.
  intros [|a [|b [|c [|d l]]]]; [apply H0|apply H1|apply H2|apply H3|apply H4; apply IH].
Qed.

Lemma list_ind3 {A} (P : list A -> Prop) :
  P [] -> (forall a, P [a]) -> (forall a b, P [a; b]) ->
  (forall a b c l, P l -> P (a :: b :: c :: l)) -> forall l, P l.
Proof.
  intros H0 H1 H2 H3. fix IH 1.
  intros [|a [|b [|c l]]]; [apply H0|apply H1|apply H2|apply H3; apply IH].
Qed.

(* group-wise decoding of a list of 6-bit indices *)
Fixpoint sx_bytes (l : list N) : list N :=
  match l with
  | d0 :: d1 :: d2 :: d3 :: rest => quantum_bytes [d0; d1; d2; d3] ++ sx_bytes rest
  | _ => quantum_bytes l
  end.

(* what re-encoding the decoded bytes gives: the unused trailing bits cleared *)
Fixpoint canon (l : list N) : list N :=
  match l with
  | d0 :: d1 :: d2 :: d3 :: rest => d0 :: d1 :: d2 :: d3 :: canon rest
  | [d0; d1; d2] => [d0; d1; d2 / 4 * 4]
  | [d0; d1] => [d0; d1 / 16 * 16]
  | _ => []
  end.

Definition lt64 (v : N) : Prop := v < 64.
Definition lt256 (v : N) : Prop := v < 256.

Lemma dec_loop_valid d rest q out : d < 64 ->
  b64_dec_loop (enc_char d :: rest) q out =
  if Nat.eqb (length (q ++ [d])) 4 then b64_dec_loop rest [] (out ++ quantum_bytes (q ++ [d]))
  else b64_dec_loop rest (q ++ [d]) out.
Proof. intros H. cbn [b64_dec_loop]. rewrite dec_enc_char by assumption. reflexivity. Qed.

(* decoding a text made of alphabet characters only = group-wise decoding *)
Lemma dec_loop_all_valid l : Forall lt64 l -> forall out,
  fst (b64_dec_loop (map enc_char l) [] out) = out ++ sx_bytes l.
Proof.
  induction l as [| a | a b | a b c | a b c d l IH] using list_ind4; intros HF out.
  - cbn. now rewrite app_nil_r.
  - inversion_clear HF. cbn [map]. rewrite dec_loop_valid by assumption. cbn. now rewrite app_nil_r.
  - inversion_clear HF as [|? ? Ha HF']. inversion_clear HF' as [|? ? Hb _].
    cbn [map]. rewrite !dec_loop_valid by assumption. reflexivity.
  - inversion_clear HF as [|? ? Ha HF']. inversion_clear HF' as [|? ? Hb HF]. inversion_clear HF as [|? ? Hc _].
    cbn [map]. rewrite !dec_loop_valid by assumption. reflexivity.
  - inversion_clear HF as [|? ? Ha HF']. inversion_clear HF' as [|? ? Hb HF].
    inversion_clear HF as [|? ? Hc HF']. inversion_clear HF' as [|? ? Hd HF].
    cbn [map]. rewrite !dec_loop_valid by assumption. cbn [app length Nat.eqb].
    rewrite IH by assumption. cbn [sx_bytes]. now rewrite app_assoc.
Qed.

Lemma sextets_lt64 bs : Forall lt64 (b64_sextets bs).
Proof.
  induction bs as [| a | a b | a b c l IH] using list_ind3; cbn [b64_sextets];
    repeat constructor; try apply sx_lt. exact IH.
Qed.

(* bytes -> indices -> bytes *)
Lemma sx_bytes_sextets bs : Forall lt256 bs -> sx_bytes (b64_sextets bs) = bs.
Proof.
  induction bs as [| a | a b | a b c l IH] using list_ind3; intros HF.
  - reflexivity.
  - inversion_clear HF. cbn [b64_sextets sx_bytes]. now apply q2_enc.
  - inversion_clear HF as [|? ? Ha HF']. inversion_clear HF' as [|? ? Hb _].
    cbn [b64_sextets sx_bytes]. now apply q3_enc.
  - inversion_clear HF as [|? ? Ha HF']. inversion_clear HF' as [|? ? Hb HF]. inversion_clear HF as [|? ? Hc HF'].
    cbn [b64_sextets sx_bytes]. rewrite q4_enc by assumption. rewrite IH by assumption. reflexivity.
Qed.

(* Decode (Encode bs) = bs: every byte string, every length *)
Theorem b64_decode_encode bs : Forall lt256 bs -> fst (b64_decode (b64_encode bs)) = bs.
Proof.
  intros H. unfold b64_decode, b64_encode.
  rewrite dec_loop_all_valid by apply sextets_lt64. cbn [app]. now apply sx_bytes_sextets.
Qed.

Lemma quantum4_shape a b c d : exists x y z, quantum_bytes [a; b; c; d] = [x; y; z].
Proof. repeat eexists. Qed.

(* indices -> bytes -> indices: the same but for the unused trailing bits *)
Lemma sextets_sx_bytes l : Forall lt64 l -> b64_sextets (sx_bytes l) = canon l.
Proof.
  induction l as [| a | a b | a b c | a b c d l IH] using list_ind4; intros HF.
  - reflexivity.
  - reflexivity.
  - inversion_clear HF as [|? ? Ha HF']. inversion_clear HF' as [|? ? Hb _].
    cbn [sx_bytes canon]. now apply q2_dec.
  - inversion_clear HF as [|? ? Ha HF']. inversion_clear HF' as [|? ? Hb HF]. inversion_clear HF as [|? ? Hc _].
    cbn [sx_bytes canon]. now apply q3_dec.
  - inversion_clear HF as [|? ? Ha HF']. inversion_clear HF' as [|? ? Hb HF].
    inversion_clear HF as [|? ? Hc HF']. inversion_clear HF' as [|? ? Hd HF].
    cbn [sx_bytes canon]. pose proof (q4_dec a b c d Ha Hb Hc Hd) as Q.
    destruct (quantum4_shape a b c d) as (x & y & z & E). rewrite E in *.
    cbn [app]. cbn [b64_sextets] in Q |- *. inversion Q as [[Q0 Q1 Q2 Q3]].
    rewrite Q0, Q1, Q2, Q3. rewrite IH by assumption. reflexivity.
Qed.

Lemma sx_bytes_lt256 l : Forall lt256 (sx_bytes l).
Proof.
  induction l as [| a | a b | a b c | a b c d l IH] using list_ind4; cbn [sx_bytes quantum_bytes app];
    repeat constructor; try apply byte_lt. exact IH.
Qed.

(* ---- the count of decoded bytes is bounded by the number of alphabet characters *)

Definition valid_char (c : N) : bool := match dec_char c with Some _ => true | None => false end.
Definition dec_or0 (c : N) : N := match dec_char c with Some v => v | None => 0 end.

Lemma dec_loop_count src : forall q out, (length q < 4)%nat ->
  (4 * length (fst (b64_dec_loop src q out)) <= 4 * length out + 3 * (length q + length (filter valid_char src)))%nat.
Proof.
  induction src as [|c rest IH]; intros q out Hq.
  - destruct q as [|a [|b [|d [|e q]]]]; cbn in *; rewrite ?app_length; cbn; lia.
  - cbn [b64_dec_loop filter]. unfold valid_char at 1. destruct (dec_char c) as [v|] eqn:E.
    + destruct q as [|a [|b [|d [|e q]]]]; cbn [app length Nat.eqb] in *; try lia.
      * specialize (IH [v] out). cbn in IH. lia.
      * specialize (IH [a; v] out). cbn in IH. lia.
      * specialize (IH [a; b; v] out). cbn in IH. lia.
      * destruct (quantum4_shape a b d v) as (x & y & z & Q). rewrite Q.
        specialize (IH [] (out ++ [x; y; z])). rewrite app_length in IH. cbn [length] in IH. lia.
    + destruct (is_crlf c).
      * specialize (IH q out Hq). lia.
      * cbn. lia.
Qed.

Lemma filter_length_all {A} (f : A -> bool) l :
  (length l <= length (filter f l))%nat -> forallb f l = true.
Proof.
  induction l as [|x l IH]; cbn; intros H; [reflexivity|].
  assert (L : (length (filter f l) <= length l)%nat).
  { clear. induction l as [|y l IH]; cbn; [lia|]. destruct (f y); cbn; lia. }
  destruct (f x); cbn in *; [apply IH; lia | lia].
Qed.

Lemma all_valid_map s : forallb valid_char s = true ->
  map enc_char (map dec_or0 s) = s /\ Forall lt64 (map dec_or0 s).
Proof.
  induction s as [|c s IH]; cbn; intros H; [split; constructor|].
  apply andb_prop in H. destruct H as [Hc Hs]. destruct (IH Hs) as [E F].
  unfold valid_char, dec_or0 in *. destruct (dec_char c) as [v|] eqn:D; [|discriminate].
  destruct (dec_char_some c v D) as [Hv Ec]. split.
  - now rewrite Ec, E.
  - constructor; assumption.
Qed.

(* a text of n characters from which at least m bytes come out, with
   3 * (n - 1) < 4 * m, consists of alphabet characters only *)
Lemma decode_count_all_valid s m :
  (m <= length (fst (b64_decode s)))%nat -> (3 * length s < 4 * m + 3)%nat ->
  exists l, s = map enc_char l /\ Forall lt64 l /\ fst (b64_decode s) = sx_bytes l.
Proof.
  intros Hm Hn. unfold b64_decode in *.
  pose proof (dec_loop_count s [] [] ltac:(cbn; lia)) as C. cbn [length] in C.
  assert (V : forallb valid_char s = true) by (apply filter_length_all; lia).
  destruct (all_valid_map s V) as [E F]. exists (map dec_or0 s). repeat split; auto.
  rewrite <- E at 1. now rewrite dec_loop_all_valid.
Qed.

(* ------------------------------------------------ base32 (as far as String32 / ParseUid32 need) *)

(* the lower-case alphabet "abcdefghijklmnopqrstuvwxyz234567" *)
Definition enc32l_char (v : N) : N := if v <? 26 then v + 97 else v + 24.

Lemma lower_enc32 v : v < 32 -> lower_ascii (enc32_char v) = enc32l_char v.
Proof.
  intros H. unfold enc32_char, enc32l_char. destruct (v <? 26) eqn:E; unfold lower_ascii;
  match goal with |- context [if ?b then _ else _] => destruct b eqn:? end; lia.
Qed.

Lemma dec32l_enc32l v : v < 32 -> dec32l_char (enc32l_char v) = Some v.
Proof.
  intros H. unfold enc32l_char. destruct (v <? 26) eqn:E; unfold dec32l_char;
  repeat match goal with |- context [if ?b then _ else _] => destruct b eqn:? end;
    try (f_equal; lia); lia.
Qed.

Lemma enc32l_plain v : v < 32 -> (enc32l_char v =? 255) = false /\ is_crlf (enc32l_char v) = false.
Proof.
  intros H. unfold enc32l_char, is_crlf. destruct (v <? 26) eqn:E; split; lia.
Qed.

Lemma b32_loop_valid v rest q out : v < 32 ->
  b32_dec_loop dec32l_char (enc32l_char v :: rest) q out =
  if Nat.eqb (length (q ++ [v])) 8 then b32_dec_loop dec32l_char rest [] (out ++ b32_pack (q ++ [v]))
  else b32_dec_loop dec32l_char rest (q ++ [v]) out.
Proof.
  intros H. cbn [b32_dec_loop]. destruct (enc32l_plain v H) as [E _]. rewrite E. cbn [andb].
  now rewrite dec32l_enc32l.
Qed.

Lemma b32_hi_arith b0 b1 b2 b3 : b0 < 256 -> b1 < 256 -> b2 < 256 -> b3 < 256 ->
  b32_hi b0 b1 b2 b3 = b0 * 16777216 + b1 * 65536 + b2 * 256 + b3.
Proof.
  intros. unfold b32_hi. rewrite !shl_mul. pow_lit.
  rewrite (lor_add 24 (b0 * 16777216)) by (pow_lit; dlia).
  rewrite (lor_add 16 (b0 * 16777216 + b1 * 65536)) by (pow_lit; dlia).
  rewrite (lor_add 8) by (pow_lit; dlia). reflexivity.
Qed.

Lemma b32_lo_arith b0 b1 b2 b3 b4 : b0 < 256 -> b1 < 256 -> b2 < 256 -> b3 < 256 -> b4 < 256 ->
  b32_lo (b0 * 16777216 + b1 * 65536 + b2 * 256 + b3) b4 = b1 * 16777216 + b2 * 65536 + b3 * 256 + b4.
Proof.
  intros. unfold b32_lo. rewrite u32_mod, shl_mul. pow_lit.
  replace (((b0 * 16777216 + b1 * 65536 + b2 * 256 + b3) * 256) mod 4294967296)
    with (b1 * 16777216 + b2 * 65536 + b3 * 256).
  2:{ apply (N.mod_unique _ _ b0); lia. }
  rewrite (lor_add 8) by (pow_lit; dlia). reflexivity.
Qed.

(* the bytes decode packs, in arithmetic form (5-bit values) *)
Lemma pack_b0 d0 d1 : d0 < 32 -> d1 < 32 ->
  N.lor (byte (N.shiftl d0 3)) (N.shiftr d1 2) = d0 * 8 + d1 / 4.
Proof.
  intros. rewrite byte_mod, shl_mul, shr_div. pow_lit.
  rewrite (lor_add 3) by (pow_lit; dlia). dlia.
Qed.
Lemma pack_b1 d1 d2 d3 : d1 < 32 -> d2 < 32 -> d3 < 32 ->
  N.lor (N.lor (byte (N.shiftl d1 6)) (byte (N.shiftl d2 1))) (N.shiftr d3 4) = (d1 mod 4) * 64 + d2 * 2 + d3 / 16.
Proof.
  intros. rewrite !byte_mod, !shl_mul, shr_div. pow_lit.
  rewrite (lor_add 6 ((d1 * 64) mod 256)) by (pow_lit; dlia).
  rewrite (lor_add 1) by (pow_lit; dlia). dlia.
Qed.
Lemma pack_b2 d3 d4 : d3 < 32 -> d4 < 32 ->
  N.lor (byte (N.shiftl d3 4)) (N.shiftr d4 1) = (d3 mod 16) * 16 + d4 / 2.
Proof.
  intros. rewrite byte_mod, shl_mul, shr_div. pow_lit.
  rewrite (lor_add 4) by (pow_lit; dlia). dlia.
Qed.
Lemma pack_b3 d4 d5 d6 : d4 < 32 -> d5 < 32 -> d6 < 32 ->
  N.lor (N.lor (byte (N.shiftl d4 7)) (byte (N.shiftl d5 2))) (N.shiftr d6 3) = (d4 mod 2) * 128 + d5 * 4 + d6 / 8.
Proof.
  intros. rewrite !byte_mod, !shl_mul, shr_div. pow_lit.
  rewrite (lor_add 7 ((d4 * 128) mod 256)) by (pow_lit; dlia).
  rewrite (lor_add 2) by (pow_lit; dlia). dlia.
Qed.
Lemma pack_b4 d6 d7 : d6 < 32 -> d7 < 32 ->
  N.lor (byte (N.shiftl d6 5)) d7 = (d6 mod 8) * 32 + d7.
Proof.
  intros. rewrite byte_mod, shl_mul. pow_lit.
  rewrite (lor_add 5) by (pow_lit; dlia). dlia.
Qed.

(* the 5-bit values Encode takes out of a full group, in terms of the bytes *)
Lemma g5_q0 b0 b1 b2 b3 : b0 < 256 -> b1 < 256 -> b2 < 256 -> b3 < 256 ->
  (b0 * 16777216 + b1 * 65536 + b2 * 256 + b3) / 134217728 mod 32 = b0 / 8.
Proof. intros. dlia. Qed.
Lemma g5_q1 b0 b1 b2 b3 : b0 < 256 -> b1 < 256 -> b2 < 256 -> b3 < 256 ->
  (b0 * 16777216 + b1 * 65536 + b2 * 256 + b3) / 4194304 mod 32 = (b0 mod 8) * 4 + b1 / 64.
Proof. intros. dlia. Qed.
Lemma g5_q2 b0 b1 b2 b3 : b0 < 256 -> b1 < 256 -> b2 < 256 -> b3 < 256 ->
  (b0 * 16777216 + b1 * 65536 + b2 * 256 + b3) / 131072 mod 32 = (b1 / 2) mod 32.
Proof. intros. dlia. Qed.
Lemma g5_q3 b0 b1 b2 b3 : b0 < 256 -> b1 < 256 -> b2 < 256 -> b3 < 256 ->
  (b0 * 16777216 + b1 * 65536 + b2 * 256 + b3) / 4096 mod 32 = (b1 mod 2) * 16 + b2 / 16.
Proof. intros. dlia. Qed.
Lemma g5_q4 b0 b1 b2 b3 : b0 < 256 -> b1 < 256 -> b2 < 256 -> b3 < 256 ->
  (b0 * 16777216 + b1 * 65536 + b2 * 256 + b3) / 128 mod 32 = (b2 mod 16) * 2 + b3 / 128.
Proof. intros. dlia. Qed.
Lemma g5_q5 b0 b1 b2 b3 : b0 < 256 -> b1 < 256 -> b2 < 256 -> b3 < 256 ->
  (b0 * 16777216 + b1 * 65536 + b2 * 256 + b3) / 4 mod 32 = (b3 / 4) mod 32.
Proof. intros. dlia. Qed.
Lemma g5_q6 b1 b2 b3 b4 : b1 < 256 -> b2 < 256 -> b3 < 256 -> b4 < 256 ->
  (b1 * 16777216 + b2 * 65536 + b3 * 256 + b4) / 32 mod 32 = (b3 mod 4) * 8 + b4 / 32.
Proof. intros. dlia. Qed.
Lemma g5_q7 b1 b2 b3 b4 : b1 < 256 -> b2 < 256 -> b3 < 256 -> b4 < 256 ->
  (b1 * 16777216 + b2 * 65536 + b3 * 256 + b4) / 1 mod 32 = b4 mod 32.
Proof. intros. dlia. Qed.

(* a full group: 5 bytes -> 8 values -> the same 5 bytes *)
Lemma b32_group5 b0 b1 b2 b3 b4 : b0 < 256 -> b1 < 256 -> b2 < 256 -> b3 < 256 -> b4 < 256 ->
  let hi := b32_hi b0 b1 b2 b3 in
  let lo := b32_lo hi b4 in
  b32_pack [q5 hi 27; q5 hi 22; q5 hi 17; q5 hi 12; q5 hi 7; q5 hi 2; q5 lo 5; q5 lo 0] = [b0; b1; b2; b3; b4].
Proof.
  intros H0 H1 H2 H3 H4 hi lo. cbn [b32_pack].
  rewrite pack_b0, pack_b1, pack_b2, pack_b3, pack_b4 by apply q5_lt.
  subst lo hi. rewrite !q5_arith, b32_hi_arith, b32_lo_arith by assumption. pow_lit.
  rewrite g5_q0, g5_q1, g5_q2, g5_q3, g5_q4, g5_q5, g5_q6, g5_q7 by assumption.
  leq; dlia.
Qed.

(* the 3-byte tail: 3 bytes -> 5 values -> the same 3 bytes *)
Lemma b32_group3 b0 b1 b2 : b0 < 256 -> b1 < 256 -> b2 < 256 ->
  b32_pack (b32_tail [b0; b1; b2]) = [b0; b1; b2].
Proof.
  intros H0 H1 H2. cbn [b32_tail b32_pack].
  rewrite pack_b0, pack_b1, pack_b2 by apply q5_lt.
  rewrite !q5_arith, !shl_mul. pow_lit.
  rewrite (N.lor_comm (b2 * 256)). rewrite (lor_add 16 (b1 * 65536)) by (pow_lit; dlia).
  rewrite (N.lor_comm (b1 * 65536 + b2 * 256)). rewrite (lor_add 24 (b0 * 16777216)) by (pow_lit; dlia).
  assert (Q0 : (b0 * 16777216 + (b1 * 65536 + b2 * 256)) / 134217728 mod 32 = b0 / 8) by (clear - H0 H1 H2; dlia).
  assert (Q1 : (b0 * 16777216 + (b1 * 65536 + b2 * 256)) / 4194304 mod 32 = (b0 mod 8) * 4 + b1 / 64) by (clear - H0 H1 H2; dlia).
  assert (Q2 : (b1 * 65536 + b2 * 256) / 131072 mod 32 = (b1 / 2) mod 32) by (clear - H0 H1 H2; dlia).
  assert (Q3 : (b1 * 65536 + b2 * 256) / 4096 mod 32 = (b1 mod 2) * 16 + b2 / 16) by (clear - H0 H1 H2; dlia).
  assert (Q4 : (b2 * 256) / 128 mod 32 = (b2 mod 16) * 2) by (clear - H0 H1 H2; dlia).
  rewrite Q0, Q1, Q2, Q3, Q4. clear Q0 Q1 Q2 Q3 Q4. leq; dlia.
Qed.
