(* Small shared utilities: finite ranges of N and the lifting of an exhaustive
   boolean sweep to a universally quantified statement with the bound in it. *)
From Coq Require Import NArith List Bool Lia Arith.
Import ListNotations.
Open Scope N_scope.

Definition nrange (n : nat) : list N := map N.of_nat (seq 0 n).

Lemma in_nrange (n : nat) (x : N) : In x (nrange n) <-> x < N.of_nat n.
Proof.
  unfold nrange. rewrite in_map_iff. split.
  - intros [k [Hk Hin]]. apply in_seq in Hin. lia.
  - intros H. exists (N.to_nat x). split; [lia|]. apply in_seq. lia.
Qed.

Lemma sweep1 (P : N -> bool) (n : nat) :
  forallb P (nrange n) = true -> forall x, x < N.of_nat n -> P x = true.
Proof.
  intros H x Hx. rewrite forallb_forall in H. apply H. now apply in_nrange.
Qed.

Lemma sweep2 (P : N -> N -> bool) (n k : nat) :
  forallb (fun x => forallb (P x) (nrange k)) (nrange n) = true ->
  forall x y, x < N.of_nat n -> y < N.of_nat k -> P x y = true.
Proof.
  intros H x y Hx Hy.
  pose proof (sweep1 _ _ H x Hx) as H1. cbv beta in H1.
  exact (sweep1 _ _ H1 y Hy).
Qed.

Lemma sweep_list {A} (P : A -> bool) (l : list A) :
  forallb P l = true -> forall x, In x l -> P x = true.
Proof. intros H x Hx. rewrite forallb_forall in H. auto. Qed.

Inductive result (A : Type) : Type := Ok (a : A) | Err.
Arguments Ok {A} a.
Arguments Err {A}.
